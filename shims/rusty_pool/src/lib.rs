//! Stand-in for the `rusty_pool` crate, backed by the controlled runtime (`verif_rt::pool`).
pub use verif_rt::pool::{Builder, ThreadPool};
