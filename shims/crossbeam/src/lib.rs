//! Stand-in for the `crossbeam` crate: only `crossbeam::channel`, backed by the controlled
//! runtime (`verif_rt::chan`).  rs-store's `channel.rs` compiles against it unchanged.
pub mod channel {
    pub use verif_rt::chan::{
        bounded, Receiver, RecvError, RecvTimeoutError, SendError, SendTimeoutError, Sender, TryRecvError,
        TrySendError,
    };
}
