fn main() {
    println!("cargo:rustc-check-cfg=cfg(rs_store_verif)");
    println!("cargo:rustc-check-cfg=cfg(dev)");
    println!("cargo:rerun-if-changed=build.rs");
}
