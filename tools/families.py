#!/usr/bin/env python3
"""Scenario families per property as built: `vcheck list` for both tiers, grouped by name pattern."""
import subprocess,re,collections
def fam(name):
    parts=name.split('/')
    if len(parts)>=3: return '/'.join(parts[:-1])+'/*'
    return parts[0]+'/'+re.sub(r'\d+','#',parts[1])
print("| property | family (name pattern) | scenarios quick | scenarios thorough | preemption bounds (thorough) |\n|---|---|---|---|---|")
for i in range(1,20):
    pid=f"C{i:02d}"
    rows=collections.OrderedDict()
    for tier in ('quick','thorough'):
        out=subprocess.run(['/verif/target/release/vcheck','list',pid,'--tier',tier],capture_output=True,text=True).stdout
        for l in out.splitlines():
            if not l.startswith(pid+'/'): continue
            name=l.split(' [',1)[0]
            m=re.search(r' bound (\d+)\s*$',l)
            b=int(m.group(1)) if m else None
            r=rows.setdefault(fam(name),{'quick':0,'thorough':0,'b':set()})
            r[tier]+=1
            if tier=='thorough' and b is not None: r['b'].add(b)
    if pid=='C13':
        # too many patterns: summarise by number of roles
        agg=collections.OrderedDict()
        for f,r in rows.items():
            k=f"C13/<{f.count('|')+1} roles>/cap#"
            a=agg.setdefault(k,{'quick':0,'thorough':0,'b':set()})
            a['quick']+=r['quick']; a['thorough']+=r['thorough']; a['b']|=r['b']
        rows=agg
    for f,r in rows.items():
        bs=','.join(str(x) for x in sorted(r['b'])) or '-'
        print(f"| {pid} | `{f}` | {r['quick']} | {r['thorough']} | {bs} |")
