#!/usr/bin/env python3
"""Replace DESIGN.md sections 14 and 15 (up to the 'What the seeded changes made us strengthen'
subsection) by the output of design_tables.py, and section 17's table by families.py."""
import subprocess
p='/verif/DESIGN.md'
s=open(p).read()
a=s.index('## 14. Own mutants: which check catches which change')
b=s.index('### What the seeded changes made us strengthen')
tab=subprocess.run(['python3','/verif/tools/design_tables.py'],capture_output=True,text=True).stdout.rstrip('\n')
s=s[:a]+tab+'\n\n'+s[b:]
open(p,'w').write(s)
print("sections 14/15 regenerated")
