#!/usr/bin/env python3
"""Regenerate DESIGN.md sections 14 (own mutants) and 15 (independently seeded changes) from
/verif/mutants/matrix.txt and /verif/seeded/*/meta.json."""
import json,glob,re,os
out=[]
out.append("## 14. Own mutants: which check catches which change\n")
out.append("`mutants/gen.py` writes each change as a diff against /repo (never committed there); `mutants/matrix.sh` applies one at a time, re-runs the repository's 46 tests (guard off), runs all 19 quick checks and reverts.  Signature of the first violation in parentheses.\n")
out.append("| mutant | repo tests | detected by (quick tier) |\n|---|---|---|")
notes={
 'm08_dropoldest_blocking_resend':'equivalent: sends are serialised by the `dispatch_tx` mutex (and by the single reducer thread for subscriber channels), so after the pop the re-send can never find the queue full',
 'm09_need_dispatch_sticky':'only changes mixed Dispatch/Keep chains, which the properties leave unspecified (C03)',
 'm12_stop_no_join':'equivalent since the KF-3 fix: stop() has already waited for the pool to go idle before the final shutdown',
}
rows={}
for f in ['/verif/mutants/matrix.txt','/verif/mutants/matrix2.txt','/verif/mutants/matrix_reverts.txt']:
    if not os.path.exists(f): continue
    for l in open(f):
        l=l.strip()
        if '|' not in l: continue
        name,tests,det=[x.strip() for x in l.split('|',2)]
        rows[name]=(tests.replace('tests: ',''),det.replace('detected by:','').strip())
for name in sorted(rows):
    tests,det=rows[name]
    if not det: det='— '+notes.get(name,'NOT DETECTED')
    out.append(f"| `{name}` | {tests} | {det} |")
out.append("")
out.append("## 15. Independently seeded changes (sub-agents)\n")
out.append("One fresh sub-agent per property, given only the property text and a scratch worktree of /repo (nothing from /verif), asked for a realistic property-breaking change that compiles, passes the 46 tests and needs something specific to manifest, plus a demonstration.  Each was re-confirmed by `seeded/verify.sh` in a fresh scratch worktree (suite with the change, demonstration with and without it) before being kept in `seeded/<id>/` (patch.diff, demo, meta.json), then applied to /repo, checked with every quick check, and undone.  Five rounds (19 + 19 + 19 + 19 + 8 changes); after each `fix:` commit in /repo the patches that no longer applied were re-based by hand (the original is kept as `patch.before-*.diff`), re-confirmed with `seeded/reverify.sh` (suite and demonstration, with and without) and all of them re-checked with `seeded/recheck.sh`; this table is the state after the last fix.  Three changes are obsolete: the defect they introduced depended on code a fix removed, and the patched code is correct on the fixed tree.\n")
out.append("| seeded for | change (what it needs to manifest) | repo suite / demo with / demo without | detected by (quick tier) |\n|---|---|---|---|")
for d in sorted(glob.glob('/verif/seeded/C*/meta.json')):
    m=json.load(open(d))
    c=m['confirmed_by_us']
    def short(x):
        x=x or ''
        mm=re.search(r'(\d+ passed; \d+ failed)',x)
        return mm.group(1) if mm else x[:40]
    summ=(m.get('summary') or '')
    if isinstance(summ,list): summ=' '.join(summ)
    need=m.get('needs_to_manifest') or ''
    if isinstance(need,list): need=' '.join(map(str,need))
    if isinstance(need,dict): need=json.dumps(need)
    txt=(summ[:260]+' — needs: '+str(need)[:220]).replace('|','/').replace('\n',' ')
    if m.get('status','').startswith('obsolete'):
        txt+=' — OBSOLETE after the '+('KF-7' if 'kf7' in m['status'] else 'KF-4')+' fix (see meta.json note); results are for the base it was written for'
    out.append(f"| {m['name']} | {txt} | {short(c['repo_suite_with_change'])} / {short(c['demo_with_change'])} / {short(c['demo_without_change'])} | {' '.join(m['our_checks_quick_tier_detecting_it']) or 'NOT DETECTED'} |")
print('\n'.join(out))
