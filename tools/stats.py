#!/usr/bin/env python3
"""Summarise /verif/evidence/<ID>.json: per-scenario cost, what finished, what did not."""
import json,sys
e=json.load(open(f'/verif/evidence/{sys.argv[1]}.json'))
ps=e['coverage']['per_scenario']
done=[p for p in ps if p['exhausted']]
nd=[p for p in ps if not p['exhausted']]
print(f"{sys.argv[1]}: {len(ps)} scenarios, {len(done)} exhausted, {len(nd)} not; total exec {sum(p['executions'] for p in ps):,}; wall {e['wall_s']:.0f}s exhaustive={e['coverage']['exhaustive']}")
for p in sorted(ps,key=lambda p:-p['executions'])[:int(sys.argv[2]) if len(sys.argv)>2 else 12]:
    print(f"  {p['executions']:>12,} b{p['preemption_bound_attempted']} {'ok ' if p['exhausted'] else 'CAP'} out={p['distinct_outcomes']:<7} {p['scenario']}")
