//! Harness-only helpers: `Gate` (counting semaphore used to park scripted callbacks) and
//! `quiesce()` (resume me when nothing else can run — makes "the next dispatch is blocked" an
//! observable fact instead of a hope about timing).

use crate::core::{self, Wait};

#[derive(Clone, Copy, Debug)]
pub struct Gate(u32);

impl Gate {
    pub fn new(tokens: usize) -> Gate {
        Gate(core::new_gate(tokens))
    }
    /// take one token, waiting for it if necessary
    pub fn pass(&self) {
        core::sched_point(Wait::Gate(self.0));
        core::gate(self.0, |t| *t -= 1);
    }
    /// add tokens
    pub fn open(&self, n: usize) {
        core::sched_point(Wait::None);
        core::gate(self.0, |t| *t += n);
    }
    pub fn tokens(&self) -> usize {
        core::gate(self.0, |t| *t)
    }
}

/// Block until no other task can run (after any pending timed wait has expired).
pub fn quiesce() {
    core::sched_point(Wait::Quiesce);
}
