//! Bounded MPMC FIFO channel with crossbeam-channel's observable semantics, on the controlled
//! runtime.  Exactly one scheduling point before each operation; a blocking operation is resumed
//! only when it can complete.  Capacity 0 (rendezvous) is not modelled.

use crate::core::{self, Wait};
use crate::ev::Ev;
use std::cell::UnsafeCell;
use std::collections::VecDeque;
use std::sync::Arc;

struct Inner<T> {
    id: u32,
    q: UnsafeCell<VecDeque<T>>,
}
unsafe impl<T: Send> Send for Inner<T> {}
unsafe impl<T: Send> Sync for Inner<T> {}

pub struct Sender<T> {
    inner: Arc<Inner<T>>,
}
pub struct Receiver<T> {
    inner: Arc<Inner<T>>,
}

#[derive(PartialEq, Eq, Clone, Copy)]
pub struct SendError<T>(pub T);
#[derive(PartialEq, Eq, Clone, Copy)]
pub enum TrySendError<T> {
    Full(T),
    Disconnected(T),
}
#[derive(PartialEq, Eq, Clone, Copy)]
pub enum SendTimeoutError<T> {
    Timeout(T),
    Disconnected(T),
}
impl<T> std::fmt::Debug for SendTimeoutError<T> {
    fn fmt(&self, f: &mut std::fmt::Formatter<'_>) -> std::fmt::Result {
        "SendTimeoutError(..)".fmt(f)
    }
}
impl<T> std::fmt::Display for SendTimeoutError<T> {
    fn fmt(&self, f: &mut std::fmt::Formatter<'_>) -> std::fmt::Result {
        match self {
            SendTimeoutError::Timeout(..) => "timed out waiting on send operation".fmt(f),
            SendTimeoutError::Disconnected(..) => "sending on a disconnected channel".fmt(f),
        }
    }
}
impl<T> std::error::Error for SendTimeoutError<T> {}
impl<T> SendTimeoutError<T> {
    pub fn into_inner(self) -> T {
        match self {
            SendTimeoutError::Timeout(t) | SendTimeoutError::Disconnected(t) => t,
        }
    }
    pub fn is_timeout(&self) -> bool {
        matches!(self, SendTimeoutError::Timeout(_))
    }
}
#[derive(PartialEq, Eq, Clone, Copy, Debug)]
pub enum RecvTimeoutError {
    Timeout,
    Disconnected,
}
impl std::fmt::Display for RecvTimeoutError {
    fn fmt(&self, f: &mut std::fmt::Formatter<'_>) -> std::fmt::Result {
        match self {
            RecvTimeoutError::Timeout => "timed out waiting on receive operation".fmt(f),
            RecvTimeoutError::Disconnected => "channel is empty and disconnected".fmt(f),
        }
    }
}
impl std::error::Error for RecvTimeoutError {}

#[derive(PartialEq, Eq, Clone, Copy, Debug)]
pub struct RecvError;
#[derive(PartialEq, Eq, Clone, Copy, Debug)]
pub enum TryRecvError {
    Empty,
    Disconnected,
}

impl<T> std::fmt::Debug for SendError<T> {
    fn fmt(&self, f: &mut std::fmt::Formatter<'_>) -> std::fmt::Result {
        "SendError(..)".fmt(f)
    }
}
impl<T> std::fmt::Display for SendError<T> {
    fn fmt(&self, f: &mut std::fmt::Formatter<'_>) -> std::fmt::Result {
        "sending on a disconnected channel".fmt(f)
    }
}
impl<T> std::error::Error for SendError<T> {}
impl<T> std::fmt::Debug for TrySendError<T> {
    fn fmt(&self, f: &mut std::fmt::Formatter<'_>) -> std::fmt::Result {
        match self {
            TrySendError::Full(..) => "Full(..)".fmt(f),
            TrySendError::Disconnected(..) => "Disconnected(..)".fmt(f),
        }
    }
}
impl<T> std::fmt::Display for TrySendError<T> {
    fn fmt(&self, f: &mut std::fmt::Formatter<'_>) -> std::fmt::Result {
        match self {
            TrySendError::Full(..) => "sending on a full channel".fmt(f),
            TrySendError::Disconnected(..) => "sending on a disconnected channel".fmt(f),
        }
    }
}
impl<T> std::error::Error for TrySendError<T> {}
impl<T> TrySendError<T> {
    pub fn into_inner(self) -> T {
        match self {
            TrySendError::Full(t) | TrySendError::Disconnected(t) => t,
        }
    }
    pub fn is_full(&self) -> bool {
        matches!(self, TrySendError::Full(_))
    }
    pub fn is_disconnected(&self) -> bool {
        matches!(self, TrySendError::Disconnected(_))
    }
}
impl<T> SendError<T> {
    pub fn into_inner(self) -> T {
        self.0
    }
}
impl std::fmt::Display for RecvError {
    fn fmt(&self, f: &mut std::fmt::Formatter<'_>) -> std::fmt::Result {
        "receiving on an empty and disconnected channel".fmt(f)
    }
}
impl std::error::Error for RecvError {}
impl std::fmt::Display for TryRecvError {
    fn fmt(&self, f: &mut std::fmt::Formatter<'_>) -> std::fmt::Result {
        match self {
            TryRecvError::Empty => "receiving on an empty channel".fmt(f),
            TryRecvError::Disconnected => "receiving on an empty and disconnected channel".fmt(f),
        }
    }
}
impl std::error::Error for TryRecvError {}

pub fn bounded<T>(cap: usize) -> (Sender<T>, Receiver<T>) {
    assert!(cap >= 1, "verif_rt channel: capacity 0 (rendezvous) is not modelled");
    let id = core::new_chan(std::any::type_name::<T>(), cap);
    let inner = Arc::new(Inner { id, q: UnsafeCell::new(VecDeque::with_capacity(cap)) });
    (Sender { inner: inner.clone() }, Receiver { inner })
}

impl<T> Inner<T> {
    #[allow(clippy::mut_from_ref)]
    fn q(&self) -> &mut VecDeque<T> {
        unsafe { &mut *self.q.get() }
    }
    fn push(&self, t: T) {
        self.q().push_back(t);
        let len = self.q().len();
        core::chan(self.id, |m| m.len = len);
        core::log(Ev::ChanSend { ch: self.id, len: len as u32 });
    }
    fn pop(&self) -> Option<T> {
        let v = self.q().pop_front();
        if v.is_some() {
            let len = self.q().len();
            core::chan(self.id, |m| m.len = len);
            core::log(Ev::ChanRecv { ch: self.id, len: len as u32 });
        }
        v
    }
    fn meta(&self) -> (usize, usize, usize, usize) {
        core::chan(self.id, |m| (m.len, m.cap, m.senders, m.receivers)).unwrap()
    }
}

impl<T> Sender<T> {
    pub fn id(&self) -> u32 {
        self.inner.id
    }
    pub fn send(&self, t: T) -> Result<(), SendError<T>> {
        let (len, cap, _, rx) = self.inner.meta();
        if len >= cap && rx > 0 {
            core::log(Ev::SendWouldBlock { ch: self.inner.id });
        }
        core::sched_point(Wait::Send(self.inner.id));
        let (len, cap, _, rx) = self.inner.meta();
        if rx == 0 {
            return Err(SendError(t));
        }
        debug_assert!(len < cap);
        self.inner.push(t);
        Ok(())
    }
    /// Timed send: the timeout is logical — it expires only when no task in the execution can run
    /// (logged as `ChanTimeout`), so it never fires "early".
    pub fn send_timeout(&self, t: T, _d: std::time::Duration) -> Result<(), SendTimeoutError<T>> {
        let (len, cap, _, rx) = self.inner.meta();
        if len >= cap && rx > 0 {
            core::log(Ev::SendWouldBlock { ch: self.inner.id });
        }
        let timed_out = core::sched_point(Wait::SendT(self.inner.id));
        let (len, cap, _, rx) = self.inner.meta();
        if rx == 0 {
            return Err(SendTimeoutError::Disconnected(t));
        }
        if timed_out && len >= cap {
            return Err(SendTimeoutError::Timeout(t));
        }
        self.inner.push(t);
        Ok(())
    }
    pub fn try_send(&self, t: T) -> Result<(), TrySendError<T>> {
        core::sched_point(Wait::None);
        let (len, cap, _, rx) = self.inner.meta();
        if rx == 0 {
            return Err(TrySendError::Disconnected(t));
        }
        if len >= cap {
            core::log(Ev::ChanFull { ch: self.inner.id });
            return Err(TrySendError::Full(t));
        }
        self.inner.push(t);
        Ok(())
    }
    pub fn len(&self) -> usize {
        core::sched_point(Wait::None);
        self.inner.meta().0
    }
    pub fn is_empty(&self) -> bool {
        self.len() == 0
    }
    pub fn is_full(&self) -> bool {
        core::sched_point(Wait::None);
        let (len, cap, ..) = self.inner.meta();
        len >= cap
    }
    pub fn capacity(&self) -> Option<usize> {
        Some(self.inner.meta().1)
    }
}

impl<T> Receiver<T> {
    pub fn id(&self) -> u32 {
        self.inner.id
    }
    pub fn recv(&self) -> Result<T, RecvError> {
        core::sched_point(Wait::Recv(self.inner.id));
        match self.inner.pop() {
            Some(v) => Ok(v),
            None => Err(RecvError),
        }
    }
    pub fn recv_timeout(&self, _d: std::time::Duration) -> Result<T, RecvTimeoutError> {
        let timed_out = core::sched_point(Wait::RecvT(self.inner.id));
        match self.inner.pop() {
            Some(v) => Ok(v),
            None => {
                if timed_out && self.inner.meta().2 > 0 {
                    Err(RecvTimeoutError::Timeout)
                } else {
                    Err(RecvTimeoutError::Disconnected)
                }
            }
        }
    }
    pub fn try_recv(&self) -> Result<T, TryRecvError> {
        core::sched_point(Wait::None);
        match self.inner.pop() {
            Some(v) => Ok(v),
            None => {
                if self.inner.meta().2 == 0 {
                    Err(TryRecvError::Disconnected)
                } else {
                    Err(TryRecvError::Empty)
                }
            }
        }
    }
    pub fn len(&self) -> usize {
        core::sched_point(Wait::None);
        self.inner.meta().0
    }
    pub fn is_empty(&self) -> bool {
        self.len() == 0
    }
    pub fn is_full(&self) -> bool {
        core::sched_point(Wait::None);
        let (len, cap, ..) = self.inner.meta();
        len >= cap
    }
    pub fn capacity(&self) -> Option<usize> {
        Some(self.inner.meta().1)
    }
}

impl<T> Clone for Sender<T> {
    fn clone(&self) -> Self {
        core::chan(self.inner.id, |m| m.senders += 1);
        Sender { inner: self.inner.clone() }
    }
}
impl<T> Clone for Receiver<T> {
    fn clone(&self) -> Self {
        core::chan(self.inner.id, |m| m.receivers += 1);
        Receiver { inner: self.inner.clone() }
    }
}
impl<T> Drop for Sender<T> {
    fn drop(&mut self) {
        core::chan(self.inner.id, |m| m.senders -= 1);
    }
}
impl<T> Drop for Receiver<T> {
    fn drop(&mut self) {
        // crossbeam-channel 0.5.17 keeps queued messages (and reports them in `len`) after the
        // last receiver is gone; they are freed with the channel (found by the conformance run)
        core::chan(self.inner.id, |m| m.receivers -= 1);
    }
}
impl<T> std::fmt::Debug for Sender<T> {
    fn fmt(&self, f: &mut std::fmt::Formatter<'_>) -> std::fmt::Result {
        write!(f, "Sender#{}", self.inner.id)
    }
}
impl<T> std::fmt::Debug for Receiver<T> {
    fn fmt(&self, f: &mut std::fmt::Formatter<'_>) -> std::fmt::Result {
        write!(f, "Receiver#{}", self.inner.id)
    }
}
