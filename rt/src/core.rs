//! Deterministic single-OS-thread runtime: every "thread" of the program under test is a stackful
//! coroutine; exactly one runs at a time; control returns to the scheduler at every visible
//! operation (lock, channel op, spawn/join, pool op, gate op, optional atomics).  Which task runs
//! next is decided by a `Chooser` (the DFS explorer or a fixed replay list), never by the OS.
//!
//! Enabledness is a function of the runtime state (mutex holders, channel occupancy, finished
//! tasks, pool job counts, gate tokens), so there are no wake-up lists and no spurious wake-ups:
//! a task that requested `lock(m)` is simply not schedulable while `m` is held.

use crate::ev::{Ev, Rec};
use corosensei::stack::DefaultStack;
use corosensei::{Coroutine, CoroutineResult, Yielder};
use std::cell::RefCell;
use std::panic::{catch_unwind, AssertUnwindSafe};

pub const STACK_SIZE: usize = 512 * 1024;

#[derive(Clone, Copy, Debug, PartialEq, Eq, Hash)]
pub enum Role {
    Main,
    Client,
    Internal,
}

#[derive(Clone, Debug, PartialEq, Eq, Hash)]
pub enum Wait {
    None,
    Mutex(u32),
    Send(u32),
    Recv(u32),
    /// send_timeout / recv_timeout: like Send / Recv, but given up when nothing else can run
    SendT(u32),
    RecvT(u32),
    Join(u32),
    Pool { pool: u32, timed: bool },
    Gate(u32),
    Quiesce,
}

/// Payload used for machinery failures raised inside a task (never a verdict).
pub struct MachineryError(pub String);

pub trait Chooser {
    /// `n` >= 2 options in canonical order (option 0 = keep running the current task when
    /// `preempting` is true).  `preempting`: the current task is still enabled, so any choice
    /// other than 0 costs one preemption.
    fn choose(&mut self, n: usize, preempting: bool) -> Result<usize, String>;
}

type Co = Coroutine<(), (), (), DefaultStack>;

struct Task {
    name: String,
    role: Role,
    co: Option<Co>,
    yielder: *const Yielder<(), ()>,
    wait: Wait,
    finished: bool,
    /// set by the scheduler when it releases a timed / quiesce wait
    released: bool,
}

#[derive(Clone, Debug)]
pub struct ChanMeta {
    pub elem: &'static str,
    pub cap: usize,
    pub len: usize,
    pub senders: usize,
    pub receivers: usize,
}

#[derive(Clone, Debug)]
pub struct PoolMeta {
    pub name: String,
    pub running: usize,
    pub next_worker: usize,
    pub next_job: u32,
    pub handles: usize,
}

#[derive(Clone, Debug)]
pub struct RunOpts {
    /// make every atomic operation a scheduling point
    pub atomic_points: bool,
    pub max_steps: u64,
    /// Mutexes whose protected type name contains one of these substrings are declared
    /// task-local for this scenario: their lock operations are not scheduling points.  Checked:
    /// if a second task ever locks such a mutex the execution is flagged (`elision_broken`) and
    /// the driver re-explores the scenario with elision off.
    pub elide: Vec<&'static str>,
}

impl Default for RunOpts {
    fn default() -> Self {
        RunOpts { atomic_points: false, max_steps: 200_000, elide: vec![] }
    }
}

/// A task that had not finished when the execution could make no more progress.
#[derive(Clone, Debug, PartialEq, Eq, Hash)]
pub struct Stuck {
    pub task: u32,
    pub name: String,
    pub role: Role,
    pub wait: Wait,
    /// for Mutex waits: the holder task; for channel waits: (elem type, len, cap, senders, receivers)
    pub detail: String,
    /// element type of the channel for Send/Recv waits ("" otherwise)
    pub elem: &'static str,
    /// for Mutex waits: the task holding the mutex
    pub holder: Option<u32>,
}

pub struct Runtime {
    tasks: Vec<Task>,
    current: usize,
    next: Option<usize>,
    pub log: Vec<Rec>,
    pub tick: u64,
    pub steps: u64,
    mutex_holder: Vec<Option<u32>>,
    /// per mutex: elidable?, first locker
    mutex_elide: Vec<(bool, Option<u32>)>,
    pub elision_broken: bool,
    pub chans: Vec<ChanMeta>,
    pub pools: Vec<PoolMeta>,
    gates: Vec<usize>,
    chooser: *mut dyn Chooser,
    pub opts: RunOpts,
    fatal: Option<String>,
    pub preemptions: u32,
    pub timeouts: u32,
    pub choice_points: u32,
    /// process-unique number of this execution: handles created in one execution and used in a
    /// later one (possible only through process-wide state in the code under test) are detected
    pub epoch: u64,
}

static NEXT_EPOCH: std::sync::atomic::AtomicU64 = std::sync::atomic::AtomicU64::new(1);

pub fn epoch() -> u64 {
    RT.with(|c| c.borrow().as_ref().map(|rt| rt.epoch).unwrap_or(0))
}

thread_local! {
    static RT: RefCell<Option<Box<Runtime>>> = const { RefCell::new(None) };
    static STACKS: RefCell<Vec<DefaultStack>> = const { RefCell::new(Vec::new()) };
}

pub fn active() -> bool {
    RT.with(|c| c.borrow().is_some())
}

#[inline]
pub(crate) fn with_rt<R>(f: impl FnOnce(&mut Runtime) -> R) -> R {
    RT.with(|c| {
        let mut b = c.borrow_mut();
        f(b.as_mut().expect("verif_rt primitive used outside a controlled execution"))
    })
}

impl Runtime {
    fn enabled(&self, t: usize) -> bool {
        let tk = &self.tasks[t];
        if tk.finished {
            return false;
        }
        if tk.released {
            return true;
        }
        match tk.wait {
            Wait::None => true,
            Wait::Mutex(m) => self.mutex_holder[m as usize].is_none(),
            Wait::Send(c) | Wait::SendT(c) => {
                let ch = &self.chans[c as usize];
                ch.len < ch.cap || ch.receivers == 0
            }
            Wait::Recv(c) | Wait::RecvT(c) => {
                let ch = &self.chans[c as usize];
                ch.len > 0 || ch.senders == 0
            }
            Wait::Join(j) => self.tasks[j as usize].finished,
            Wait::Pool { pool, .. } => self.pools[pool as usize].running == 0,
            Wait::Gate(g) => self.gates[g as usize] > 0,
            Wait::Quiesce => false,
        }
    }

    /// Decide which task runs next.  `None` = nothing can run any more (clean end or stuck).
    fn pick(&mut self) -> Option<usize> {
        loop {
            let cur = self.current;
            let n = self.tasks.len();
            let cur_enabled = self.enabled(cur);
            let mut en: Vec<usize> = Vec::with_capacity(8);
            if cur_enabled {
                en.push(cur);
            }
            for t in 0..n {
                if t != cur && self.enabled(t) {
                    en.push(t);
                }
            }
            if en.is_empty() {
                // 1. a timed wait expires only when nothing else can run
                if let Some(t) = (0..n).find(|&t| {
                    !self.tasks[t].finished
                        && matches!(self.tasks[t].wait, Wait::Pool { timed: true, .. } | Wait::SendT(_) | Wait::RecvT(_))
                }) {
                    let ev = match self.tasks[t].wait {
                        Wait::Pool { pool, .. } => Ev::TimeoutFired { pool },
                        Wait::SendT(ch) | Wait::RecvT(ch) => Ev::ChanTimeout { ch },
                        _ => unreachable!(),
                    };
                    self.tasks[t].released = true;
                    self.timeouts += 1;
                    self.log.push(Rec { task: t as u32, ev });
                    continue;
                }
                // 2. then quiesce waiters (lowest id first)
                if let Some(t) = (0..n)
                    .find(|&t| !self.tasks[t].finished && self.tasks[t].wait == Wait::Quiesce)
                {
                    self.tasks[t].released = true;
                    continue;
                }
                return None;
            }
            let idx = if en.len() == 1 {
                0
            } else {
                self.choice_points += 1;
                let ch = unsafe { &mut *self.chooser };
                match ch.choose(en.len(), cur_enabled) {
                    Ok(i) if i < en.len() => i,
                    Ok(i) => {
                        self.fatal =
                            Some(format!("chooser returned {} of {} options", i, en.len()));
                        return None;
                    }
                    Err(e) => {
                        self.fatal = Some(e);
                        return None;
                    }
                }
            };
            if idx > 0 && cur_enabled {
                self.preemptions += 1;
            }
            self.steps += 1;
            if self.steps > self.opts.max_steps {
                self.fatal = Some(format!("step tripwire: more than {} steps", self.opts.max_steps));
                return None;
            }
            return Some(en[idx]);
        }
    }

    fn stuck(&self) -> Vec<Stuck> {
        let mut v = vec![];
        for (i, t) in self.tasks.iter().enumerate() {
            if t.finished {
                continue;
            }
            let (detail, elem) = match t.wait {
                Wait::Mutex(m) => (
                    format!("held_by={:?}", self.mutex_holder[m as usize]),
                    "",
                ),
                Wait::Send(c) | Wait::Recv(c) | Wait::SendT(c) | Wait::RecvT(c) => {
                    let ch = &self.chans[c as usize];
                    (
                        format!(
                            "len={} cap={} senders={} receivers={}",
                            ch.len, ch.cap, ch.senders, ch.receivers
                        ),
                        ch.elem,
                    )
                }
                Wait::Pool { pool, .. } => {
                    (format!("running={}", self.pools[pool as usize].running), "")
                }
                _ => (String::new(), ""),
            };
            v.push(Stuck {
                task: i as u32,
                name: t.name.clone(),
                role: t.role,
                wait: t.wait.clone(),
                detail,
                elem,
                holder: match t.wait {
                    Wait::Mutex(m) => self.mutex_holder[m as usize],
                    _ => None,
                },
            });
        }
        v
    }
}

/// Everything an oracle may look at after one execution.
pub struct ExecResult {
    pub log: Vec<Rec>,
    pub stuck: Vec<Stuck>,
    pub steps: u64,
    pub preemptions: u32,
    pub timeouts: u32,
    pub choice_points: u32,
    pub task_names: Vec<(String, Role)>,
    pub chans: Vec<ChanMeta>,
    pub pools: Vec<PoolMeta>,
    /// machinery failure (divergence, tripwire, …) — never a verdict
    pub fatal: Option<String>,
    pub elision_broken: bool,
}

fn take_stack() -> DefaultStack {
    STACKS
        .with(|s| s.borrow_mut().pop())
        .unwrap_or_else(|| DefaultStack::new(STACK_SIZE).expect("cannot allocate coroutine stack"))
}

fn give_stack(st: DefaultStack) {
    STACKS.with(|s| s.borrow_mut().push(st));
}

fn new_task(rt: &mut Runtime, name: String, role: Role, f: Box<dyn FnOnce()>) -> u32 {
    let id = rt.tasks.len();
    let co: Co = Coroutine::with_stack(take_stack(), move |y: &Yielder<(), ()>, _| {
        with_rt(|rt| rt.tasks[id].yielder = y as *const _);
        let r = catch_unwind(AssertUnwindSafe(f));
        with_rt(|rt| {
            if let Err(p) = r {
                if let Some(m) = p.downcast_ref::<MachineryError>() {
                    rt.fatal = Some(m.0.clone());
                } else {
                    let msg = if let Some(s) = p.downcast_ref::<&str>() {
                        s.to_string()
                    } else if let Some(s) = p.downcast_ref::<String>() {
                        s.clone()
                    } else {
                        "<non-string panic>".to_string()
                    };
                    rt.log.push(Rec { task: id as u32, ev: Ev::TaskPanic { msg } });
                }
                std::mem::forget(p);
            }
            rt.tasks[id].finished = true;
            rt.tasks[id].wait = Wait::None;
            rt.log.push(Rec { task: id as u32, ev: Ev::Exit });
            rt.next = if rt.fatal.is_some() { None } else { rt.pick() };
        });
    });
    rt.tasks.push(Task {
        name,
        role,
        co: Some(co),
        yielder: std::ptr::null(),
        wait: Wait::None,
        finished: false,
        released: false,
    });
    id as u32
}

/// Spawn a new task from inside a running task.  No scheduling point by itself; callers follow
/// it with `sched_point(Wait::None)` where the real operation is a visible one.
pub fn spawn_task(name: String, role: Role, f: Box<dyn FnOnce()>) -> u32 {
    with_rt(|rt| {
        let id = new_task(rt, name.clone(), role, f);
        let cur = rt.current as u32;
        rt.log.push(Rec { task: cur, ev: Ev::Spawn { child: id, name } });
        id
    })
}

/// The scheduling point.  The calling task declares what it is about to do (`wait`); it is
/// resumed only when that operation can complete without blocking.  Returns `true` when the
/// scheduler released a timed or quiesce wait instead (timeout fired / system quiescent).
pub fn sched_point(wait: Wait) -> bool {
    let y = with_rt(|rt| {
        let cur = rt.current;
        rt.tasks[cur].wait = wait;
        if rt.fatal.is_some() {
            rt.next = None;
            return rt.tasks[cur].yielder;
        }
        match rt.pick() {
            Some(t) if t == cur => std::ptr::null(),
            other => {
                rt.next = other;
                rt.tasks[cur].yielder
            }
        }
    });
    if !y.is_null() {
        unsafe { (*y).suspend(()) };
    }
    with_rt(|rt| {
        let cur = rt.current;
        rt.tasks[cur].wait = Wait::None;
        std::mem::replace(&mut rt.tasks[cur].released, false)
    })
}

pub fn current_task() -> u32 {
    with_rt(|rt| rt.current as u32)
}

pub fn log(ev: Ev) {
    with_rt(|rt| {
        let t = rt.current as u32;
        rt.log.push(Rec { task: t, ev })
    })
}

/// Data choice made by a scenario: explored exhaustively by the same DFS, free of preemption cost.
pub fn choose(n: usize) -> usize {
    if n <= 1 {
        return 0;
    }
    let r = with_rt(|rt| {
        rt.choice_points += 1;
        let ch = unsafe { &mut *rt.chooser };
        ch.choose(n, false)
    });
    match r {
        Ok(i) => i,
        Err(e) => std::panic::panic_any(MachineryError(e)),
    }
}

pub fn machinery_error(msg: String) -> ! {
    std::panic::panic_any(MachineryError(msg))
}

// ---- registry helpers used by the primitives ------------------------------------------------

pub(crate) fn new_mutex_id(tname: &'static str) -> u32 {
    with_rt(|rt| {
        rt.mutex_holder.push(None);
        let el = rt.opts.elide.iter().any(|s| tname.contains(s));
        rt.mutex_elide.push((el, None));
        (rt.mutex_holder.len() - 1) as u32
    })
}

/// Elided acquire: succeeds without a scheduling point when the mutex is declared task-local,
/// free, and has only ever been locked by the current task.
pub(crate) fn mutex_try_elided(m: u32) -> bool {
    with_rt(|rt| {
        let cur = rt.current as u32;
        let e = &mut rt.mutex_elide[m as usize];
        if !e.0 {
            return false;
        }
        match e.1 {
            None => e.1 = Some(cur),
            Some(t) if t == cur => {}
            Some(_) => {
                e.0 = false;
                rt.elision_broken = true;
                return false;
            }
        }
        if rt.mutex_holder[m as usize].is_some() {
            return false;
        }
        rt.mutex_holder[m as usize] = Some(cur);
        true
    })
}

pub(crate) fn mutex_acquire(m: u32) {
    with_rt(|rt| {
        debug_assert!(rt.mutex_holder[m as usize].is_none());
        rt.mutex_holder[m as usize] = Some(rt.current as u32);
    })
}

pub(crate) fn mutex_release(m: u32) {
    // may run during teardown-free unwinding only; runtime always present while tasks run
    RT.with(|c| {
        if let Ok(mut b) = c.try_borrow_mut() {
            if let Some(rt) = b.as_mut() {
                if (m as usize) < rt.mutex_holder.len() {
                    rt.mutex_holder[m as usize] = None;
                }
            }
        }
    })
}

pub(crate) fn new_chan(elem: &'static str, cap: usize) -> u32 {
    with_rt(|rt| {
        rt.chans.push(ChanMeta { elem, cap, len: 0, senders: 1, receivers: 1 });
        (rt.chans.len() - 1) as u32
    })
}

pub(crate) fn chan<R>(c: u32, f: impl FnOnce(&mut ChanMeta) -> R) -> Option<R> {
    RT.with(|cell| {
        if let Ok(mut b) = cell.try_borrow_mut() {
            if let Some(rt) = b.as_mut() {
                return rt.chans.get_mut(c as usize).map(f);
            }
        }
        None
    })
}

pub(crate) fn new_pool(name: String) -> u32 {
    with_rt(|rt| {
        rt.pools.push(PoolMeta { name, running: 0, next_worker: 0, next_job: 0, handles: 1 });
        (rt.pools.len() - 1) as u32
    })
}

pub(crate) fn pool<R>(p: u32, f: impl FnOnce(&mut PoolMeta) -> R) -> Option<R> {
    RT.with(|cell| {
        if let Ok(mut b) = cell.try_borrow_mut() {
            if let Some(rt) = b.as_mut() {
                return rt.pools.get_mut(p as usize).map(f);
            }
        }
        None
    })
}

pub(crate) fn new_gate(tokens: usize) -> u32 {
    with_rt(|rt| {
        rt.gates.push(tokens);
        (rt.gates.len() - 1) as u32
    })
}

pub(crate) fn gate<R>(g: u32, f: impl FnOnce(&mut usize) -> R) -> R {
    with_rt(|rt| f(&mut rt.gates[g as usize]))
}

pub(crate) fn tick() -> u64 {
    with_rt(|rt| {
        rt.tick += 1;
        rt.tick
    })
}

pub(crate) fn atomic_points() -> bool {
    RT.with(|c| match c.try_borrow() {
        Ok(b) => b.as_ref().map(|rt| rt.opts.atomic_points).unwrap_or(false),
        Err(_) => false,
    })
}

/// Run one execution of `body` as the main task under `chooser`.
pub fn execute(chooser: &mut dyn Chooser, opts: RunOpts, body: Box<dyn FnOnce()>) -> ExecResult {
    // SAFETY: the raw pointer is only dereferenced while this function is on the stack.
    let chooser_ptr: *mut dyn Chooser =
        unsafe { std::mem::transmute::<&mut dyn Chooser, *mut dyn Chooser>(chooser) };
    let mut rt = Box::new(Runtime {
        tasks: Vec::with_capacity(8),
        current: 0,
        next: None,
        log: Vec::with_capacity(128),
        tick: 0,
        steps: 0,
        mutex_holder: Vec::with_capacity(16),
        mutex_elide: Vec::with_capacity(16),
        elision_broken: false,
        chans: Vec::with_capacity(4),
        pools: Vec::with_capacity(2),
        gates: Vec::with_capacity(2),
        chooser: chooser_ptr,
        opts,
        fatal: None,
        preemptions: 0,
        timeouts: 0,
        choice_points: 0,
        epoch: NEXT_EPOCH.fetch_add(1, std::sync::atomic::Ordering::Relaxed),
    });
    new_task(&mut rt, "main".to_string(), Role::Main, body);
    rt.next = Some(0);
    RT.with(|c| {
        let mut b = c.borrow_mut();
        assert!(b.is_none(), "nested controlled execution");
        *b = Some(rt);
    });

    loop {
        let next = with_rt(|rt| rt.next.take());
        let t = match next {
            Some(t) => t,
            None => break,
        };
        let mut co = with_rt(|rt| {
            rt.current = t;
            rt.tasks[t].co.take().expect("task has no coroutine")
        });
        match co.resume(()) {
            CoroutineResult::Yield(()) => with_rt(|rt| rt.tasks[t].co = Some(co)),
            CoroutineResult::Return(()) => give_stack(co.into_stack()),
        }
    }

    let mut rt = RT.with(|c| c.borrow_mut().take()).unwrap();
    let stuck = rt.stuck();
    // Tear down without unwinding: rs-store has Drop impls that lock and send, they must not run
    // on abandoned stacks.  Objects owned by those stacks are leaked.
    for t in rt.tasks.iter_mut() {
        if let Some(mut co) = t.co.take() {
            if !co.done() {
                unsafe { co.force_reset() };
            }
            give_stack(co.into_stack());
        }
    }
    ExecResult {
        stuck,
        steps: rt.steps,
        preemptions: rt.preemptions,
        timeouts: rt.timeouts,
        choice_points: rt.choice_points,
        task_names: rt.tasks.iter().map(|t| (t.name.clone(), t.role)).collect(),
        chans: std::mem::take(&mut rt.chans),
        pools: std::mem::take(&mut rt.pools),
        fatal: rt.fatal.take(),
        elision_broken: rt.elision_broken,
        log: std::mem::take(&mut rt.log),
    }
}
