//! Event log vocabulary.  One log per execution; because the runtime runs exactly one task at a
//! time, log order is real-time order.
//!
//! Runtime-level events are emitted by the primitives in this crate; harness-level events
//! (`Call`/`Ret`/`Cb`/`Note`) are emitted by scenario code and scripted components.

/// A state value as seen by oracles: the chain of `(reducer, action)` marks, see harness.
pub type StV = Vec<u32>;

#[derive(Clone, Debug, PartialEq, Eq, Hash)]
pub enum Ev {
    // ---- runtime ----
    Spawn { child: u32, name: String },
    Exit,
    /// uncaught panic in a task body (not a pool job, those are `JobEnd{panicked}`)
    TaskPanic { msg: String },
    /// blocking send requested while the channel was full (the sender has to wait)
    SendWouldBlock { ch: u32 },
    ChanSend { ch: u32, len: u32 },
    ChanRecv { ch: u32, len: u32 },
    /// try_send hit a full channel
    ChanFull { ch: u32 },
    PoolSubmit { pool: u32, job: u32 },
    JobStart { pool: u32, job: u32 },
    JobEnd { pool: u32, job: u32, panicked: bool },
    /// a timed wait gave up (fires only when no task can run)
    TimeoutFired { pool: u32 },
    /// a send_timeout / recv_timeout gave up (fires only when no task can run)
    ChanTimeout { ch: u32 },
    // ---- harness ----
    /// a client enters an API call
    Call { op: &'static str, a: i64 },
    /// the call returned
    Ret { op: &'static str, a: i64, ok: bool, st: StV },
    /// a scripted callback ran: kind, component id, action id, state seen, state produced, extra
    Cb { kind: &'static str, comp: u32, act: u32, st: StV, out: StV, x: i64 },
    Note { what: &'static str, a: i64, b: i64 },
}

#[derive(Clone, Debug)]
pub struct Rec {
    pub task: u32,
    pub ev: Ev,
}
