//! Drop-in replacements for the parts of `std::sync` that rs-store names.
//! `Arc` stays std's (it has no blocking behaviour).

use crate::core::{self, Wait};
use std::cell::{Cell, UnsafeCell};
use std::ops::{Deref, DerefMut};

pub use std::sync::{Arc, LockResult, PoisonError, Weak};

/// Mutex whose acquire is a scheduling point of the controlled runtime.  Poisons like std's: a
/// guard dropped by a panic that began while it was held marks the mutex, and every later
/// `lock()` returns `Err` (with the guard inside).
pub struct Mutex<T: ?Sized> {
    id: Cell<u32>,
    poisoned: Cell<bool>,
    data: UnsafeCell<T>,
}

unsafe impl<T: ?Sized + Send> Send for Mutex<T> {}
unsafe impl<T: ?Sized + Send> Sync for Mutex<T> {}

const UNASSIGNED: u32 = u32::MAX;

impl<T> Mutex<T> {
    pub fn new(t: T) -> Self {
        Mutex { id: Cell::new(UNASSIGNED), poisoned: Cell::new(false), data: UnsafeCell::new(t) }
    }
    pub fn into_inner(self) -> LockResult<T> {
        Ok(self.data.into_inner())
    }
}

impl<T: ?Sized> Mutex<T> {
    fn id(&self) -> u32 {
        let mut id = self.id.get();
        if id == UNASSIGNED {
            id = core::new_mutex_id(std::any::type_name::<T>());
            self.id.set(id);
        }
        id
    }

    pub fn lock(&self) -> LockResult<MutexGuard<'_, T>> {
        let id = self.id();
        if !core::mutex_try_elided(id) {
            // one scheduling point: resumed only when the mutex is free
            core::sched_point(Wait::Mutex(id));
            core::mutex_acquire(id);
        }
        let g = MutexGuard { m: self, id, was_panicking: std::thread::panicking() };
        if self.poisoned.get() {
            Err(PoisonError::new(g))
        } else {
            Ok(g)
        }
    }

    pub fn get_mut(&mut self) -> LockResult<&mut T> {
        Ok(self.data.get_mut())
    }
}

impl<T: Default> Default for Mutex<T> {
    fn default() -> Self {
        Mutex::new(T::default())
    }
}

impl<T: ?Sized> std::fmt::Debug for Mutex<T> {
    fn fmt(&self, f: &mut std::fmt::Formatter<'_>) -> std::fmt::Result {
        write!(f, "Mutex#{}", self.id.get())
    }
}

pub struct MutexGuard<'a, T: ?Sized> {
    m: &'a Mutex<T>,
    id: u32,
    was_panicking: bool,
}

impl<T: ?Sized> Deref for MutexGuard<'_, T> {
    type Target = T;
    fn deref(&self) -> &T {
        unsafe { &*self.m.data.get() }
    }
}
impl<T: ?Sized> DerefMut for MutexGuard<'_, T> {
    fn deref_mut(&mut self) -> &mut T {
        unsafe { &mut *self.m.data.get() }
    }
}
impl<T: ?Sized> Drop for MutexGuard<'_, T> {
    fn drop(&mut self) {
        if !self.was_panicking && std::thread::panicking() {
            self.m.poisoned.set(true);
        }
        core::mutex_release(self.id);
    }
}
impl<T: ?Sized + std::fmt::Debug> std::fmt::Debug for MutexGuard<'_, T> {
    fn fmt(&self, f: &mut std::fmt::Formatter<'_>) -> std::fmt::Result {
        (**self).fmt(f)
    }
}
impl<T: ?Sized + std::fmt::Display> std::fmt::Display for MutexGuard<'_, T> {
    fn fmt(&self, f: &mut std::fmt::Formatter<'_>) -> std::fmt::Result {
        (**self).fmt(f)
    }
}

pub mod atomic {
    pub use std::sync::atomic::Ordering;
    use crate::core::{self, Wait};

    /// `AtomicUsize` whose operations are (optionally, per scenario) scheduling points.
    #[derive(Default, Debug)]
    pub struct AtomicUsize(std::sync::atomic::AtomicUsize);

    #[inline]
    fn point() {
        if core::atomic_points() {
            core::sched_point(Wait::None);
        }
    }

    impl AtomicUsize {
        pub const fn new(v: usize) -> Self {
            AtomicUsize(std::sync::atomic::AtomicUsize::new(v))
        }
        pub fn load(&self, o: Ordering) -> usize {
            point();
            self.0.load(o)
        }
        pub fn store(&self, v: usize, o: Ordering) {
            point();
            self.0.store(v, o)
        }
        pub fn fetch_add(&self, v: usize, o: Ordering) -> usize {
            point();
            self.0.fetch_add(v, o)
        }
        pub fn fetch_sub(&self, v: usize, o: Ordering) -> usize {
            point();
            self.0.fetch_sub(v, o)
        }
        pub fn swap(&self, v: usize, o: Ordering) -> usize {
            point();
            self.0.swap(v, o)
        }
        pub fn compare_exchange(
            &self,
            c: usize,
            n: usize,
            s: Ordering,
            f: Ordering,
        ) -> Result<usize, usize> {
            point();
            self.0.compare_exchange(c, n, s, f)
        }
        pub fn fetch_max(&self, v: usize, o: Ordering) -> usize {
            point();
            self.0.fetch_max(v, o)
        }
        pub fn fetch_min(&self, v: usize, o: Ordering) -> usize {
            point();
            self.0.fetch_min(v, o)
        }
    }
}
