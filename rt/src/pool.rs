//! Model of `rusty_pool::ThreadPool` as rs-store uses it: `Builder::new().name(..).build()`,
//! `execute`, `join[_timeout]`, `shutdown_join[_timeout]`, `Clone`.
//!
//! * a job starts as soon as it is submitted, on a fresh runtime task named
//!   `<pool>_thread_<n>` (rusty_pool: true while fewer jobs than cores run concurrently);
//! * a panicking job does not affect the pool or later jobs (rusty_pool's `Sentinel`);
//! * the pool is idle when no submitted job is unfinished; joins wait for idleness;
//! * a *timed* join gives up only when no task in the whole execution can run any more, and
//!   that is logged as `TimeoutFired`.

use crate::core::{self, Wait};
use crate::ev::Ev;
use std::panic::{catch_unwind, AssertUnwindSafe};
use std::time::Duration;

pub struct ThreadPool {
    id: u32,
    /// execution this pool belongs to
    epoch: u64,
}

#[derive(Default)]
pub struct Builder {
    name: Option<String>,
}

impl Builder {
    pub fn new() -> Builder {
        Builder { name: None }
    }
    pub fn name(mut self, name: String) -> Builder {
        self.name = Some(name);
        self
    }
    pub fn core_size(self, _n: usize) -> Builder {
        self
    }
    pub fn max_size(self, _n: usize) -> Builder {
        self
    }
    pub fn keep_alive(self, _d: Duration) -> Builder {
        self
    }
    pub fn build(self) -> ThreadPool {
        let id = core::new_pool(self.name.unwrap_or_else(|| "rusty_pool_x".to_string()));
        ThreadPool { id, epoch: core::epoch() }
    }
}

impl ThreadPool {
    pub fn id(&self) -> u32 {
        self.id
    }
    pub fn get_name(&self) -> String {
        core::pool(self.id, |p| p.name.clone()).unwrap()
    }

    /// A pool handle that survived from an earlier execution can only have travelled through
    /// process-wide state of the code under test; it is inert here and the use is logged.
    fn stale(&self) -> bool {
        if self.epoch != core::epoch() {
            if core::active() {
                core::log(Ev::Note { what: "stale_object", a: self.id as i64, b: 0 });
            }
            true
        } else {
            false
        }
    }

    pub fn execute<F: FnOnce() + Send + 'static>(&self, task: F) {
        if self.stale() {
            return;
        }
        // the visible operation: the job becomes runnable
        core::sched_point(Wait::None);
        let pool = self.id;
        let (name, job) = core::pool(pool, |p| {
            p.running += 1;
            let w = p.next_worker;
            p.next_worker += 1;
            let j = p.next_job;
            p.next_job += 1;
            (format!("{}_thread_{}", p.name, w), j)
        })
        .unwrap();
        core::log(Ev::PoolSubmit { pool, job });
        crate::thread::spawn_internal(name, move || {
            core::log(Ev::JobStart { pool, job });
            let r = catch_unwind(AssertUnwindSafe(task));
            let panicked = r.is_err();
            if let Err(p) = r {
                // a machinery failure must not be swallowed like a job panic
                if p.is::<core::MachineryError>() {
                    std::panic::resume_unwind(p);
                }
                std::mem::forget(p);
            }
            core::log(Ev::JobEnd { pool, job, panicked });
            core::pool(pool, |p| p.running -= 1);
        });
    }

    fn wait_idle(id: u32, timed: bool) {
        let released = core::sched_point(Wait::Pool { pool: id, timed });
        let _ = released; // TimeoutFired is logged by the scheduler
    }

    pub fn join(&self) {
        if !self.stale() {
            Self::wait_idle(self.id, false)
        }
    }
    pub fn join_timeout(&self, _t: Duration) {
        if !self.stale() {
            Self::wait_idle(self.id, true)
        }
    }
    pub fn shutdown(self) {
        drop(self)
    }
    pub fn shutdown_join(self) {
        if self.stale() {
            return;
        }
        let id = self.id;
        drop(self);
        Self::wait_idle(id, false)
    }
    pub fn shutdown_join_timeout(self, _t: Duration) {
        if self.stale() {
            return;
        }
        let id = self.id;
        drop(self);
        Self::wait_idle(id, true)
    }
}

impl Clone for ThreadPool {
    fn clone(&self) -> Self {
        if self.epoch == core::epoch() {
            core::pool(self.id, |p| p.handles += 1);
        }
        ThreadPool { id: self.id, epoch: self.epoch }
    }
}

impl Drop for ThreadPool {
    fn drop(&mut self) {
        if self.epoch == core::epoch() {
            core::pool(self.id, |p| p.handles -= 1);
        }
    }
}
