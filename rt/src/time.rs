//! Logical time.  rs-store only measures durations for its timing metrics (and branches on
//! them: `if duration_ms > max {..}`); with real time the number of scheduling points would
//! depend on the wall clock and replay would diverge.  `now()` is a per-execution tick,
//! `elapsed()` is always zero.

pub use std::time::Duration;

#[derive(Clone, Copy, Debug, PartialEq, Eq, PartialOrd, Ord, Hash)]
pub struct Instant(u64);

impl Instant {
    pub fn now() -> Instant {
        if crate::core::active() {
            Instant(crate::core::tick())
        } else {
            Instant(0)
        }
    }
    pub fn elapsed(&self) -> Duration {
        Duration::ZERO
    }
    pub fn duration_since(&self, _earlier: Instant) -> Duration {
        Duration::ZERO
    }
}

impl std::ops::Sub<Instant> for Instant {
    type Output = Duration;
    fn sub(self, _rhs: Instant) -> Duration {
        Duration::ZERO
    }
}

impl Instant {
    pub fn saturating_duration_since(&self, _earlier: Instant) -> Duration {
        Duration::ZERO
    }
    pub fn checked_duration_since(&self, _earlier: Instant) -> Option<Duration> {
        Some(Duration::ZERO)
    }
}

impl std::ops::Add<Duration> for Instant {
    type Output = Instant;
    fn add(self, _rhs: Duration) -> Instant {
        self
    }
}
