//! `std::thread` look-alikes on the controlled runtime.

use crate::core::{self, Role, Wait};
use std::cell::UnsafeCell;
use std::sync::Arc;

struct Slot<T>(UnsafeCell<Option<std::thread::Result<T>>>);
unsafe impl<T: Send> Send for Slot<T> {}
unsafe impl<T: Send> Sync for Slot<T> {}

pub struct JoinHandle<T> {
    task: u32,
    slot: Arc<Slot<T>>,
}

impl<T> JoinHandle<T> {
    pub fn join(self) -> std::thread::Result<T> {
        core::sched_point(Wait::Join(self.task));
        let r = unsafe { (*self.slot.0.get()).take() };
        match r {
            Some(r) => r,
            // the task ended through a panic that the runtime recorded
            None => Err(Box::new("task panicked")),
        }
    }
    pub fn task_id(&self) -> u32 {
        self.task
    }
    pub fn is_finished(&self) -> bool {
        unsafe { (*self.slot.0.get()).is_some() }
    }
}

fn spawn_inner<F, T>(name: String, role: Role, f: F) -> JoinHandle<T>
where
    F: FnOnce() -> T + Send + 'static,
    T: Send + 'static,
{
    let slot = Arc::new(Slot(UnsafeCell::new(None)));
    let s2 = slot.clone();
    let task = core::spawn_task(
        name,
        role,
        Box::new(move || {
            let v = f();
            unsafe { *s2.0.get() = Some(Ok(v)) };
        }),
    );
    JoinHandle { task, slot }
}

/// used by rs-store (through the switched import): an internal thread
pub fn spawn<F, T>(f: F) -> JoinHandle<T>
where
    F: FnOnce() -> T + Send + 'static,
    T: Send + 'static,
{
    spawn_inner("<unnamed>".to_string(), Role::Internal, f)
}

/// used by scenarios: a client thread of the program under test
pub fn spawn_client<F, T>(name: &str, f: F) -> JoinHandle<T>
where
    F: FnOnce() -> T + Send + 'static,
    T: Send + 'static,
{
    spawn_inner(name.to_string(), Role::Client, f)
}

/// used by the pool shim
pub fn spawn_internal<F>(name: String, f: F) -> JoinHandle<()>
where
    F: FnOnce() + Send + 'static,
{
    spawn_inner(name, Role::Internal, f)
}

#[derive(Default, Debug)]
pub struct Builder {
    name: Option<String>,
}

impl Builder {
    pub fn new() -> Builder {
        Builder { name: None }
    }
    pub fn name(mut self, name: String) -> Builder {
        self.name = Some(name);
        self
    }
    pub fn stack_size(self, _size: usize) -> Builder {
        self
    }
    pub fn spawn<F, T>(self, f: F) -> std::io::Result<JoinHandle<T>>
    where
        F: FnOnce() -> T + Send + 'static,
        T: Send + 'static,
    {
        Ok(spawn_inner(
            self.name.unwrap_or_else(|| "<unnamed>".to_string()),
            Role::Internal,
            f,
        ))
    }
}

pub fn yield_now() {
    core::sched_point(Wait::None);
}

/// Logical sleep: only a scheduling point.
pub fn sleep(_d: std::time::Duration) {
    core::sched_point(Wait::None);
}
