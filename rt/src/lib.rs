//! verif_rt — deterministic runtime + preemption-bounded explorer used to model check rs-store.
//! See /verif/DESIGN.md section 2.

pub mod chan;
pub mod core;
pub mod ev;
pub mod explore;
pub mod gate;
pub mod pool;
pub mod sync;
pub mod thread;
pub mod time;

pub use crate::core::{choose, current_task, log, ExecResult, Role, RunOpts, Stuck, Wait};
pub use crate::ev::{Ev, Rec, StV};
pub use crate::gate::{quiesce, Gate};

/// Panics inside controlled tasks are expected (panicking effects, `expect` in Effect::Action
/// thunks after close) and are recorded in the event log; keep stderr for machinery problems.
pub fn install_quiet_panic_hook() {
    let default = std::panic::take_hook();
    std::panic::set_hook(Box::new(move |info| {
        if !crate::core::active() {
            default(info);
        }
    }));
}
