//! Stateless, preemption-bounded depth-first exploration (iterative context bounding) of a closed
//! program running on the controlled runtime, with work sharing over OS threads.
//!
//! The DFS state is the list of choices made at the *choice points* of one execution (points where
//! more than one task is enabled, plus the scenario's own `choose(n)` data choices).  Options are
//! in canonical order — the running task first if it is still enabled, then ascending task id —
//! so choice 0 never costs a preemption and a budget-exhausted node has exactly one option.

use crate::core::{self, Chooser, ExecResult, RunOpts};
use crate::ev::Ev;
use std::collections::{HashSet, VecDeque};
use std::hash::{Hash, Hasher};
use std::sync::atomic::{AtomicBool, AtomicU64, AtomicUsize, Ordering};
use std::sync::{Arc, Condvar, Mutex};
use std::time::{Duration, Instant};

const UNKNOWN: u16 = u16::MAX;

#[derive(Clone, Copy, Debug)]
pub struct Node {
    pub chosen: u16,
    /// options this search may take here (1 when the preemption budget is exhausted)
    pub allowed: u16,
    /// options that existed (for divergence detection on replay)
    pub total: u16,
}

pub struct Dfs {
    pub path: Vec<Node>,
    pos: usize,
    bound: u32,
    pre: u32,
    root_len: usize,
    pub new_nodes: u64,
}

impl Dfs {
    pub fn new(bound: u32, root: &[u16]) -> Dfs {
        Dfs {
            path: root
                .iter()
                .map(|&c| Node { chosen: c, allowed: c + 1, total: UNKNOWN })
                .collect(),
            pos: 0,
            bound,
            pre: 0,
            root_len: root.len(),
            new_nodes: 0,
        }
    }
    pub fn begin(&mut self) {
        self.pos = 0;
        self.pre = 0;
    }
    /// to be called after an execution; Err = the execution did not consume the whole prefix
    pub fn end(&mut self) -> Result<(), String> {
        if self.pos < self.path.len() {
            return Err(format!(
                "replay divergence: execution ended after {} of {} recorded choice points",
                self.pos,
                self.path.len()
            ));
        }
        Ok(())
    }
    pub fn choices(&self) -> Vec<u16> {
        self.path.iter().map(|n| n.chosen).collect()
    }
    /// move to the next unexplored schedule; false when the subtree is exhausted
    pub fn advance(&mut self) -> bool {
        while self.path.len() > self.root_len {
            let last = self.path.last_mut().unwrap();
            if last.chosen + 1 < last.allowed {
                last.chosen += 1;
                self.new_nodes += 1;
                return true;
            }
            self.path.pop();
        }
        false
    }
    /// give away the unexplored siblings of the shallowest open node (work sharing)
    pub fn split(&mut self) -> Vec<Vec<u16>> {
        for i in self.root_len..self.path.len() {
            let nd = self.path[i];
            if nd.chosen + 1 < nd.allowed {
                let mut out = vec![];
                for c in nd.chosen + 1..nd.allowed {
                    let mut p: Vec<u16> = self.path[..i].iter().map(|n| n.chosen).collect();
                    p.push(c);
                    out.push(p);
                }
                self.path[i].allowed = nd.chosen + 1;
                return out;
            }
        }
        vec![]
    }
}

impl Chooser for Dfs {
    fn choose(&mut self, n: usize, preempting: bool) -> Result<usize, String> {
        let n16 = n as u16;
        if self.pos < self.path.len() {
            let nd = &mut self.path[self.pos];
            if nd.total == UNKNOWN {
                nd.total = n16;
            } else if nd.total != n16 {
                return Err(format!(
                    "replay divergence at choice point {}: {} options now, {} when recorded",
                    self.pos, n, nd.total
                ));
            }
            if nd.chosen >= n16 {
                return Err(format!(
                    "replay divergence at choice point {}: recorded choice {} of {} options",
                    self.pos, nd.chosen, n
                ));
            }
            let c = nd.chosen;
            if c > 0 && preempting {
                self.pre += 1;
            }
            self.pos += 1;
            Ok(c as usize)
        } else {
            let allowed = if preempting && self.pre >= self.bound { 1 } else { n16 };
            self.path.push(Node { chosen: 0, allowed, total: n16 });
            self.new_nodes += 1;
            self.pos += 1;
            Ok(0)
        }
    }
}

/// Replays a fixed list of choices; past its end it keeps taking option 0.
pub struct Fixed {
    pub list: Vec<u16>,
    pos: usize,
}
impl Fixed {
    pub fn new(list: Vec<u16>) -> Fixed {
        Fixed { list, pos: 0 }
    }
}
impl Chooser for Fixed {
    fn choose(&mut self, n: usize, _p: bool) -> Result<usize, String> {
        let c = if self.pos < self.list.len() { self.list[self.pos] as usize } else { 0 };
        self.pos += 1;
        if c >= n {
            return Err(format!("replay: choice {} of {} options at point {}", c, n, self.pos - 1));
        }
        Ok(c)
    }
}

#[derive(Clone, Debug)]
pub struct Finding {
    /// stable signature used to match known findings
    pub sig: String,
    pub msg: String,
}

pub type Body = Arc<dyn Fn() + Send + Sync>;
pub type Check = Arc<dyn Fn(&ExecResult) -> Vec<Finding> + Send + Sync>;

#[derive(Clone)]
pub struct Scenario {
    pub name: String,
    /// human-readable parameters, copied into evidence/replay files
    pub params: String,
    pub opts: RunOpts,
    pub bound: u32,
    pub body: Body,
    pub check: Check,
}

#[derive(Clone, Debug)]
pub struct Violation {
    pub scenario: String,
    pub params: String,
    pub bound: u32,
    pub preemptions: u32,
    pub choices: Vec<u16>,
    pub sig: String,
    pub msg: String,
    pub log: Vec<String>,
    pub count: u64,
}

#[derive(Clone, Debug, Default)]
pub struct ScenarioStats {
    pub name: String,
    pub params: String,
    pub bound: u32,
    pub executions: u64,
    pub steps: u64,
    pub nodes: u64,
    pub outcomes: u64,
    pub nontrivial_outcomes: u64,
    pub stuck_executions: u64,
    pub timeouts: u64,
    pub max_preemptions: u32,
    pub exhausted: bool,
    pub wall_s: f64,
}

pub struct Report {
    pub stats: Vec<ScenarioStats>,
    pub violations: Vec<Violation>,
    pub fatal: Option<String>,
    pub capped: Option<String>,
    pub wall_s: f64,
    pub samples: Vec<(String, Vec<String>)>,
    /// scenarios re-explored without lock elision
    pub elision_redone: usize,
}

#[derive(Clone)]
pub struct Cfg {
    pub workers: usize,
    pub deadline: Duration,
    pub max_execs_per_scenario: u64,
    pub rss_cap_kb: u64,
    /// stop everything at the first finding whose signature `is_known` rejects
    pub stop_on_unknown: bool,
    pub iterate_bounds: bool,
}

pub fn fmt_log(r: &ExecResult) -> Vec<String> {
    let mut v: Vec<String> = r
        .log
        .iter()
        .map(|rec| {
            let name = r.task_names.get(rec.task as usize).map(|x| x.0.as_str()).unwrap_or("?");
            format!("[t{} {}] {:?}", rec.task, name, rec.ev)
        })
        .collect();
    for s in &r.stuck {
        v.push(format!(
            "STUCK t{} {} role={:?} wait={:?} {} {}",
            s.task, s.name, s.role, s.wait, s.detail, s.elem
        ));
    }
    v
}

fn norm_name(n: &str) -> &str {
    match n.find("_thread_") {
        Some(i) => &n[..i + 8],
        None => n,
    }
}

/// hash of what the program under test observably did (harness-level events, end state)
pub fn outcome_hash(r: &ExecResult) -> u64 {
    let mut h = std::collections::hash_map::DefaultHasher::new();
    for rec in &r.log {
        match &rec.ev {
            Ev::Call { .. } | Ev::Ret { .. } | Ev::Cb { .. } | Ev::Note { .. }
            | Ev::TimeoutFired { .. } | Ev::TaskPanic { .. } => {
                let name = r.task_names.get(rec.task as usize).map(|x| x.0.as_str()).unwrap_or("?");
                norm_name(name).hash(&mut h);
                rec.ev.hash(&mut h);
            }
            _ => {}
        }
    }
    for s in &r.stuck {
        norm_name(&s.name).hash(&mut h);
        std::mem::discriminant(&s.wait).hash(&mut h);
    }
    h.finish()
}

pub fn full_hash(r: &ExecResult) -> u64 {
    let mut h = std::collections::hash_map::DefaultHasher::new();
    for rec in &r.log {
        rec.task.hash(&mut h);
        rec.ev.hash(&mut h);
    }
    r.stuck.hash(&mut h);
    r.steps.hash(&mut h);
    h.finish()
}

pub fn run_once(scn: &Scenario, chooser: &mut dyn Chooser) -> ExecResult {
    let body = scn.body.clone();
    core::execute(chooser, scn.opts.clone(), Box::new(move || body()))
}

struct Item {
    cell: usize,
    prefix: Vec<u16>,
}

struct Cell {
    scn: Scenario,
    bound: u32,
    stats: Mutex<ScenarioStats>,
    outcomes: Mutex<(HashSet<u64>, HashSet<u64>)>,
    open_items: AtomicUsize,
    execs: AtomicU64,
    capped: AtomicBool,
    broken: AtomicBool,
    started: Mutex<Option<Instant>>,
}

struct Shared {
    queue: Mutex<VecDeque<Item>>,
    cv: Condvar,
    idle: AtomicUsize,
    stop: AtomicBool,
    fatal: Mutex<Option<String>>,
    capped: Mutex<Option<String>>,
    violations: Mutex<Vec<Violation>>,
    samples: Mutex<Vec<(String, Vec<String>)>>,
}

fn rss_kb() -> u64 {
    std::fs::read_to_string("/proc/self/statm")
        .ok()
        .and_then(|s| s.split_whitespace().nth(1).and_then(|x| x.parse::<u64>().ok()))
        .map(|pages| pages * 4)
        .unwrap_or(0)
}

const OUTCOME_SET_CAP: usize = 4_000_000;

/// Explore all scenarios; scenarios whose declared lock elision turned out to be unsound (a
/// second task locked an elided mutex) are explored again with elision off.
/// see `explore`: name of the OS threads that run executions
pub const ADVERSARIAL_THREAD_NAME: &str = "store-pool_thread_0";

pub fn explore(
    scenarios: Vec<Scenario>,
    cfg: &Cfg,
    is_known: &(dyn Fn(&str) -> bool + Sync),
) -> Report {
    let t0 = Instant::now();
    let (mut rep, broken) = explore_round(scenarios.clone(), cfg, is_known, t0);
    if !broken.is_empty() && rep.fatal.is_none() {
        let redo: Vec<Scenario> = scenarios
            .into_iter()
            .filter(|s| broken.iter().any(|b| b.0 == s.name && b.1 == s.params))
            .map(|mut s| {
                s.opts.elide.clear();
                s
            })
            .collect();
        rep.stats.retain(|st| !broken.iter().any(|b| b.0 == st.name && b.1 == st.params));
        rep.violations.retain(|v| !broken.iter().any(|b| b.0 == v.scenario && b.1 == v.params));
        let stopped = cfg.stop_on_unknown && rep.violations.iter().any(|v| !is_known(&v.sig));
        if !stopped {
            let (rep2, broken2) = explore_round(redo, cfg, is_known, t0);
            assert!(broken2.is_empty());
            rep.stats.extend(rep2.stats);
            rep.violations.extend(rep2.violations);
            rep.fatal = rep2.fatal;
            rep.capped = rep.capped.or(rep2.capped);
            rep.samples.extend(rep2.samples);
        }
        rep.elision_redone = broken.len();
    }
    rep.wall_s = t0.elapsed().as_secs_f64();
    rep
}

fn explore_round(
    scenarios: Vec<Scenario>,
    cfg: &Cfg,
    is_known: &(dyn Fn(&str) -> bool + Sync),
    t0: Instant,
) -> (Report, Vec<(String, String)>) {
    let mut cells = vec![];
    for s in scenarios {
        let lo = if cfg.iterate_bounds { 0 } else { s.bound };
        for b in lo..=s.bound {
            cells.push(Cell {
                bound: b,
                stats: Mutex::new(ScenarioStats {
                    name: s.name.clone(),
                    params: s.params.clone(),
                    bound: b,
                    ..Default::default()
                }),
                outcomes: Mutex::new((HashSet::new(), HashSet::new())),
                open_items: AtomicUsize::new(1),
                execs: AtomicU64::new(0),
                capped: AtomicBool::new(false),
                broken: AtomicBool::new(false),
                started: Mutex::new(None),
                scn: s.clone(),
            });
        }
    }
    // low bounds first so the first counterexample has the fewest preemptions
    cells.sort_by_key(|c| c.bound);
    let shared = Shared {
        queue: Mutex::new((0..cells.len()).map(|i| Item { cell: i, prefix: vec![] }).collect()),
        cv: Condvar::new(),
        idle: AtomicUsize::new(0),
        stop: AtomicBool::new(false),
        fatal: Mutex::new(None),
        capped: Mutex::new(None),
        violations: Mutex::new(vec![]),
        samples: Mutex::new(vec![]),
    };
    let workers = cfg.workers.max(1);
    let cells_ref = &cells;
    let shared_ref = &shared;
    std::thread::scope(|sc| {
        for _ in 0..workers {
            // The OS threads that carry the executions are named like a pool worker of a store
            // with the default name: `std::thread::current()` is not switched by the hooks, so
            // code that takes a thread's *name* for its identity sees, in every execution, the
            // legitimate environment "this call runs on a pool thread of a same-named store".
            std::thread::Builder::new()
                .name(ADVERSARIAL_THREAD_NAME.to_string())
                .spawn_scoped(sc, move || worker(cells_ref, shared_ref, cfg, is_known, t0, workers))
                .expect("spawn explorer worker");
        }
    });
    let mut stats: Vec<ScenarioStats> = cells
        .iter()
        .map(|c| {
            let mut s = c.stats.lock().unwrap().clone();
            let o = c.outcomes.lock().unwrap();
            s.outcomes = o.0.len() as u64;
            s.nontrivial_outcomes = o.1.len() as u64;
            s.exhausted = c.open_items.load(Ordering::SeqCst) == 0
                && !c.capped.load(Ordering::SeqCst);
            s
        })
        .collect();
    stats.sort_by(|a, b| (a.name.as_str(), a.bound).cmp(&(b.name.as_str(), b.bound)));
    let fatal = shared.fatal.lock().unwrap().clone();
    let capped = shared.capped.lock().unwrap().clone();
    let violations = std::mem::take(&mut *shared.violations.lock().unwrap());
    let samples = std::mem::take(&mut *shared.samples.lock().unwrap());
    let mut broken: Vec<(String, String)> = cells
        .iter()
        .filter(|c| c.broken.load(Ordering::SeqCst))
        .map(|c| (c.scn.name.clone(), c.scn.params.clone()))
        .collect();
    broken.sort();
    broken.dedup();
    (
        Report {
            stats,
            violations,
            fatal,
            capped,
            wall_s: t0.elapsed().as_secs_f64(),
            samples,
            elision_redone: 0,
        },
        broken,
    )
}

fn worker(
    cells: &[Cell],
    sh: &Shared,
    cfg: &Cfg,
    is_known: &(dyn Fn(&str) -> bool + Sync),
    t0: Instant,
    workers: usize,
) {
    loop {
        // fetch an item, or finish when every worker is idle and the queue is empty
        let item = {
            let mut q = sh.queue.lock().unwrap();
            loop {
                if sh.stop.load(Ordering::SeqCst) {
                    return;
                }
                if let Some(it) = q.pop_front() {
                    break it;
                }
                let idle = sh.idle.fetch_add(1, Ordering::SeqCst) + 1;
                if idle == workers {
                    sh.stop.store(true, Ordering::SeqCst);
                    sh.cv.notify_all();
                    return;
                }
                q = sh.cv.wait(q).unwrap();
                sh.idle.fetch_sub(1, Ordering::SeqCst);
            }
        };
        let cell = &cells[item.cell];
        if cell.broken.load(Ordering::SeqCst) {
            continue;
        }
        {
            let mut st = cell.started.lock().unwrap();
            if st.is_none() {
                *st = Some(Instant::now());
            }
        }
        let mut dfs = Dfs::new(cell.bound, &item.prefix);
        if !item.prefix.is_empty() {
            // the last node of a donated prefix is a tree node nobody has counted yet
            dfs.new_nodes = 1;
        }
        let mut local = ScenarioStats::default();
        let mut out_all: Vec<u64> = vec![];
        let mut out_nt: Vec<u64> = vec![];
        let mut n_since_check = 0u32;
        let mut finished = false;
        loop {
            if sh.stop.load(Ordering::SeqCst) || cell.broken.load(Ordering::SeqCst) {
                break;
            }
            dfs.begin();
            let r = run_once(&cell.scn, &mut dfs);
            if r.elision_broken {
                // every cell (bound) of this scenario has to be redone
                for c in cells.iter() {
                    if c.scn.name == cell.scn.name && c.scn.params == cell.scn.params {
                        c.broken.store(true, Ordering::SeqCst);
                    }
                }
                break;
            }
            local.executions += 1;
            local.steps += r.steps;
            if !r.stuck.is_empty() {
                local.stuck_executions += 1;
            }
            local.timeouts += r.timeouts as u64;
            local.max_preemptions = local.max_preemptions.max(r.preemptions);
            if let Some(f) = r.fatal.clone().or_else(|| dfs.end().err()) {
                let mut g = sh.fatal.lock().unwrap();
                if g.is_none() {
                    *g = Some(format!(
                        "{} [{}] bound {} choices {:?}: {}",
                        cell.scn.name,
                        cell.scn.params,
                        cell.bound,
                        dfs.choices(),
                        f
                    ));
                }
                sh.stop.store(true, Ordering::SeqCst);
                sh.cv.notify_all();
                break;
            }
            let oh = outcome_hash(&r);
            out_all.push(oh);
            if r.choice_points > 0 {
                out_nt.push(oh);
            }
            let findings = (cell.scn.check)(&r);
            if !findings.is_empty() {
                let mut vs = sh.violations.lock().unwrap();
                for f in findings {
                    if let Some(v) = vs
                        .iter_mut()
                        .find(|v| v.sig == f.sig && v.scenario == cell.scn.name && v.params == cell.scn.params)
                    {
                        v.count += 1;
                        continue;
                    }
                    let unknown = !is_known(&f.sig);
                    vs.push(Violation {
                        scenario: cell.scn.name.clone(),
                        params: cell.scn.params.clone(),
                        bound: cell.bound,
                        preemptions: r.preemptions,
                        choices: dfs.choices(),
                        sig: f.sig.clone(),
                        msg: f.msg.clone(),
                        log: fmt_log(&r),
                        count: 1,
                    });
                    if unknown && cfg.stop_on_unknown {
                        sh.stop.store(true, Ordering::SeqCst);
                        sh.cv.notify_all();
                    }
                }
            }
            if local.executions == 1 && item.prefix.is_empty() {
                let mut s = sh.samples.lock().unwrap();
                if s.len() < 3 {
                    s.push((
                        format!("{} [{}] bound {} choices {:?}", cell.scn.name, cell.scn.params, cell.bound, dfs.choices()),
                        fmt_log(&r),
                    ));
                }
            }
            if !dfs.advance() {
                finished = true;
                break;
            }
            n_since_check += 1;
            if n_since_check >= 64 {
                n_since_check = 0;
                let total = cell.execs.fetch_add(64, Ordering::Relaxed) + 64;
                let mut cap_reason = None;
                if total > cfg.max_execs_per_scenario {
                    cap_reason = Some(format!("execution cap {} reached", cfg.max_execs_per_scenario));
                } else if t0.elapsed() > cfg.deadline {
                    cap_reason = Some(format!("wall-clock cap {:?} reached", cfg.deadline));
                } else if cfg.rss_cap_kb > 0 && rss_kb() > cfg.rss_cap_kb {
                    cap_reason = Some(format!("RSS cap {} kB reached", cfg.rss_cap_kb));
                }
                if let Some(c) = cap_reason {
                    cell.capped.store(true, Ordering::SeqCst);
                    let mut g = sh.capped.lock().unwrap();
                    if g.is_none() {
                        *g = Some(format!("{} [{}] bound {}: {}", cell.scn.name, cell.scn.params, cell.bound, c));
                    }
                    break;
                }
                // share work when others are idle
                if sh.idle.load(Ordering::Relaxed) > 0 {
                    let donated = dfs.split();
                    if !donated.is_empty() {
                        cell.open_items.fetch_add(donated.len(), Ordering::SeqCst);
                        let mut q = sh.queue.lock().unwrap();
                        for p in donated {
                            q.push_back(Item { cell: item.cell, prefix: p });
                        }
                        sh.cv.notify_all();
                    }
                }
            }
        }
        local.nodes = dfs.new_nodes;
        {
            let mut st = cell.stats.lock().unwrap();
            st.executions += local.executions;
            st.steps += local.steps;
            st.nodes += local.nodes;
            st.stuck_executions += local.stuck_executions;
            st.timeouts += local.timeouts;
            st.max_preemptions = st.max_preemptions.max(local.max_preemptions);
            if let Some(s) = *cell.started.lock().unwrap() {
                st.wall_s = s.elapsed().as_secs_f64();
            }
            let mut o = cell.outcomes.lock().unwrap();
            if o.0.len() < OUTCOME_SET_CAP {
                o.0.extend(out_all);
            }
            if o.1.len() < OUTCOME_SET_CAP {
                o.1.extend(out_nt);
            }
        }
        if finished {
            cell.open_items.fetch_sub(1, Ordering::SeqCst);
        }
    }
}
