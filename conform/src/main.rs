//! conform — keeps the verif_rt models of third-party behaviour bound to the real crates.
//!
//!  1. channel: EVERY operation sequence up to a depth bound over {send, try_send, recv, try_recv,
//!     len, clone/drop sender, clone/drop receiver} (blocking calls only where they cannot block),
//!     capacities 1 and 2, executed on real `crossbeam::channel::bounded` and on `verif_rt::chan`;
//!     every return value must agree.  Exhaustive.
//!  2. pool: directed scripts on real `rusty_pool` and on `verif_rt::pool` (sampling: real threads,
//!     generous timeouts).
//!  3. store: the scenarios of `storescen.rs` run against rs-store compiled with the REAL
//!     crossbeam / rusty_pool / std (guard off), compared with the per-component streams recorded
//!     by `vcheck conform-model` (same sources on the models).  Sampling on the real side (real
//!     threads, settle = sleep), exhaustive (<= 1 preemption) on the model side.
//!
//! usage: conform [--depth N] [--model /verif/target/conform_model.json] [--out FILE]
//! exit 0 = all agree, 1 = disagreement (the models cannot be trusted: machinery error upstream)

mod storescen;

use std::sync::atomic::{AtomicUsize, Ordering};
use std::sync::{Arc, Condvar, Mutex};
use std::time::Duration;
use verif_rt::core::{self, RunOpts};
use verif_rt::explore::Fixed;

// ---------------------------------------------------------------------------------------------
// 1. channel

#[derive(Clone, Copy, Debug, PartialEq, Eq)]
enum COp {
    Send,
    TrySend,
    Recv,
    TryRecv,
    Len,
    CloneS,
    DropS,
    CloneR,
    DropR,
}
const COPS: [COp; 9] = [COp::Send, COp::TrySend, COp::Recv, COp::TryRecv, COp::Len, COp::CloneS, COp::DropS, COp::CloneR, COp::DropR];

/// tiny tracker used only to decide which operations are applicable / cannot block
#[derive(Clone, Copy)]
struct Tr {
    len: usize,
    cap: usize,
    ns: usize,
    nr: usize,
}
impl Tr {
    fn applicable(&self, op: COp) -> bool {
        match op {
            COp::Send => self.ns > 0 && (self.len < self.cap || self.nr == 0),
            COp::TrySend => self.ns > 0,
            COp::Recv => self.nr > 0 && (self.len > 0 || self.ns == 0),
            COp::TryRecv => self.nr > 0,
            COp::Len => self.ns > 0 || self.nr > 0,
            COp::CloneS => self.ns > 0 && self.ns < 2,
            COp::DropS => self.ns > 0,
            COp::CloneR => self.nr > 0 && self.nr < 2,
            COp::DropR => self.nr > 0,
        }
    }
    fn apply(&mut self, op: COp) {
        match op {
            COp::Send | COp::TrySend => {
                if self.nr > 0 && self.len < self.cap {
                    self.len += 1
                }
            }
            COp::Recv | COp::TryRecv => {
                if self.len > 0 {
                    self.len -= 1
                }
            }
            COp::Len => {}
            COp::CloneS => self.ns += 1,
            COp::DropS => self.ns -= 1,
            COp::CloneR => self.nr += 1,
            COp::DropR => {
                self.nr -= 1;
                if self.nr == 0 {
                    self.len = 0
                }
            }
        }
    }
}

fn run_real(cap: usize, seq: &[COp]) -> Vec<String> {
    use crossbeam::channel::{bounded, Receiver, Sender};
    let (s, r) = bounded::<u32>(cap);
    let mut ss: Vec<Sender<u32>> = vec![s];
    let mut rs: Vec<Receiver<u32>> = vec![r];
    let mut out = vec![];
    let mut next = 0u32;
    for op in seq {
        let res = match op {
            COp::Send => {
                next += 1;
                match ss[0].send(next) {
                    Ok(()) => "ok".to_string(),
                    Err(e) => format!("disc({})", e.0),
                }
            }
            COp::TrySend => {
                next += 1;
                match ss[0].try_send(next) {
                    Ok(()) => "ok".to_string(),
                    Err(crossbeam::channel::TrySendError::Full(v)) => format!("full({})", v),
                    Err(crossbeam::channel::TrySendError::Disconnected(v)) => format!("disc({})", v),
                }
            }
            COp::Recv => match rs[0].recv() {
                Ok(v) => format!("got({})", v),
                Err(_) => "disc".to_string(),
            },
            COp::TryRecv => match rs[0].try_recv() {
                Ok(v) => format!("got({})", v),
                Err(crossbeam::channel::TryRecvError::Empty) => "empty".to_string(),
                Err(crossbeam::channel::TryRecvError::Disconnected) => "disc".to_string(),
            },
            COp::Len => format!("len({})", if !ss.is_empty() { ss[0].len() } else { rs[0].len() }),
            COp::CloneS => {
                let c = ss[0].clone();
                ss.push(c);
                "-".into()
            }
            COp::DropS => {
                ss.pop();
                "-".into()
            }
            COp::CloneR => {
                let c = rs[0].clone();
                rs.push(c);
                "-".into()
            }
            COp::DropR => {
                rs.pop();
                "-".into()
            }
        };
        out.push(res);
    }
    out
}

fn run_model(cap: usize, seq: &[COp]) -> Vec<String> {
    use verif_rt::chan::{bounded, Receiver, Sender, TryRecvError, TrySendError};
    let out: Arc<Mutex<Vec<String>>> = Arc::new(Mutex::new(vec![]));
    let o2 = out.clone();
    let seq: Vec<COp> = seq.to_vec();
    let r = core::execute(
        &mut Fixed::new(vec![]),
        RunOpts::default(),
        Box::new(move || {
            let (s, r) = bounded::<u32>(cap);
            let mut ss: Vec<Sender<u32>> = vec![s];
            let mut rs: Vec<Receiver<u32>> = vec![r];
            let mut next = 0u32;
            for op in &seq {
                let res = match op {
                    COp::Send => {
                        next += 1;
                        match ss[0].send(next) {
                            Ok(()) => "ok".to_string(),
                            Err(e) => format!("disc({})", e.0),
                        }
                    }
                    COp::TrySend => {
                        next += 1;
                        match ss[0].try_send(next) {
                            Ok(()) => "ok".to_string(),
                            Err(TrySendError::Full(v)) => format!("full({})", v),
                            Err(TrySendError::Disconnected(v)) => format!("disc({})", v),
                        }
                    }
                    COp::Recv => match rs[0].recv() {
                        Ok(v) => format!("got({})", v),
                        Err(_) => "disc".to_string(),
                    },
                    COp::TryRecv => match rs[0].try_recv() {
                        Ok(v) => format!("got({})", v),
                        Err(TryRecvError::Empty) => "empty".to_string(),
                        Err(TryRecvError::Disconnected) => "disc".to_string(),
                    },
                    COp::Len => format!("len({})", if !ss.is_empty() { ss[0].len() } else { rs[0].len() }),
                    COp::CloneS => {
                        let c = ss[0].clone();
                        ss.push(c);
                        "-".into()
                    }
                    COp::DropS => {
                        ss.pop();
                        "-".into()
                    }
                    COp::CloneR => {
                        let c = rs[0].clone();
                        rs.push(c);
                        "-".into()
                    }
                    COp::DropR => {
                        rs.pop();
                        "-".into()
                    }
                };
                o2.lock().unwrap().push(res);
            }
        }),
    );
    let mut v = out.lock().unwrap().clone();
    if !r.stuck.is_empty() {
        v.push("MODEL-BLOCKED".into());
    }
    v
}

fn channel_conformance(depth: usize) -> (u64, Vec<String>, Vec<String>) {
    let mut n = 0u64;
    let mut problems = vec![];
    let mut samples = vec![];
    for cap in [1usize, 2] {
        let mut stack: Vec<(Vec<COp>, Tr)> = vec![(vec![], Tr { len: 0, cap, ns: 1, nr: 1 })];
        while let Some((seq, tr)) = stack.pop() {
            if !seq.is_empty() {
                // every prefix is itself a sequence: compare only complete ones at each length
                let a = run_real(cap, &seq);
                let b = run_model(cap, &seq);
                n += 1;
                if a != b && problems.len() < 5 {
                    problems.push(format!("cap {} ops {:?}: crossbeam {:?} vs model {:?}", cap, seq, a, b));
                }
                if n % 40_000 == 1 && samples.len() < 4 {
                    samples.push(format!("cap {} ops {:?} -> {:?}", cap, seq, a));
                }
            }
            if seq.len() < depth {
                for op in COPS {
                    if tr.applicable(op) {
                        let mut t2 = tr;
                        t2.apply(op);
                        let mut s2 = seq.clone();
                        s2.push(op);
                        stack.push((s2, t2));
                    }
                }
            }
        }
    }
    (n, problems, samples)
}

// ---------------------------------------------------------------------------------------------
// 2. pool

fn pool_real() -> Vec<String> {
    let mut out = vec![];
    // a: jobs run once, shutdown_join waits for them
    let p = rusty_pool::Builder::new().name("cp".into()).build();
    let c = Arc::new(AtomicUsize::new(0));
    for _ in 0..3 {
        let c2 = c.clone();
        p.execute(move || {
            std::thread::sleep(Duration::from_millis(30));
            c2.fetch_add(1, Ordering::SeqCst);
        });
    }
    p.shutdown_join();
    out.push(format!("a:ran={}", c.load(Ordering::SeqCst)));
    // b: a panicking job does not stop later jobs; join returns
    let p = rusty_pool::Builder::new().name("cp".into()).build();
    let c = Arc::new(AtomicUsize::new(0));
    p.execute(|| panic!("scripted"));
    for _ in 0..2 {
        let c2 = c.clone();
        p.execute(move || {
            c2.fetch_add(1, Ordering::SeqCst);
        });
    }
    p.join();
    out.push(format!("b:ran_after_panic={}", c.load(Ordering::SeqCst)));
    // c: thread names
    let names = Arc::new(Mutex::new(vec![]));
    let n2 = names.clone();
    p.execute(move || n2.lock().unwrap().push(std::thread::current().name().unwrap_or("").to_string()));
    p.join();
    let nm = names.lock().unwrap()[0].clone();
    out.push(format!("c:name_prefix_ok={}", nm.starts_with("cp_thread_")));
    // d: join_timeout gives up while a job is blocked, the job is not finished
    let gate = Arc::new((Mutex::new(false), Condvar::new()));
    let g2 = gate.clone();
    let done = Arc::new(AtomicUsize::new(0));
    let d2 = done.clone();
    p.execute(move || {
        let (m, cv) = &*g2;
        let mut ok = m.lock().unwrap();
        while !*ok {
            ok = cv.wait(ok).unwrap();
        }
        d2.fetch_add(1, Ordering::SeqCst);
    });
    p.join_timeout(Duration::from_millis(150));
    out.push(format!("d:done_at_timeout={}", done.load(Ordering::SeqCst)));
    // e: a clone keeps the pool usable after the original is shut down; idle join returns at once
    let p2 = p.clone();
    {
        let (m, cv) = &*gate;
        *m.lock().unwrap() = true;
        cv.notify_all();
    }
    p.shutdown_join();
    out.push(format!("d:done_after_release={}", done.load(Ordering::SeqCst)));
    let c = Arc::new(AtomicUsize::new(0));
    let c2 = c.clone();
    p2.execute(move || {
        c2.fetch_add(1, Ordering::SeqCst);
    });
    p2.shutdown_join_timeout(Duration::from_secs(2));
    out.push(format!("e:ran_via_clone={}", c.load(Ordering::SeqCst)));
    out
}

fn pool_model() -> Vec<String> {
    let out: Arc<Mutex<Vec<String>>> = Arc::new(Mutex::new(vec![]));
    let o = out.clone();
    let r = core::execute(
        &mut Fixed::new(vec![]),
        RunOpts::default(),
        Box::new(move || {
            use verif_rt::pool::Builder;
            let p = Builder::new().name("cp".into()).build();
            let c = Arc::new(AtomicUsize::new(0));
            for _ in 0..3 {
                let c2 = c.clone();
                p.execute(move || {
                    verif_rt::thread::yield_now();
                    c2.fetch_add(1, Ordering::SeqCst);
                });
            }
            p.shutdown_join();
            o.lock().unwrap().push(format!("a:ran={}", c.load(Ordering::SeqCst)));
            let p = Builder::new().name("cp".into()).build();
            let c = Arc::new(AtomicUsize::new(0));
            p.execute(|| panic!("scripted"));
            for _ in 0..2 {
                let c2 = c.clone();
                p.execute(move || {
                    c2.fetch_add(1, Ordering::SeqCst);
                });
            }
            p.join();
            o.lock().unwrap().push(format!("b:ran_after_panic={}", c.load(Ordering::SeqCst)));
            // c: names are given by the model to its tasks; checked from the task table below
            p.execute(|| {});
            p.join();
            let gate = verif_rt::Gate::new(0);
            let done = Arc::new(AtomicUsize::new(0));
            let d2 = done.clone();
            p.execute(move || {
                gate.pass();
                d2.fetch_add(1, Ordering::SeqCst);
            });
            p.join_timeout(Duration::from_millis(150));
            o.lock().unwrap().push(format!("d:done_at_timeout={}", done.load(Ordering::SeqCst)));
            let p2 = p.clone();
            gate.open(1);
            p.shutdown_join();
            o.lock().unwrap().push(format!("d:done_after_release={}", done.load(Ordering::SeqCst)));
            let c = Arc::new(AtomicUsize::new(0));
            let c2 = c.clone();
            p2.execute(move || {
                c2.fetch_add(1, Ordering::SeqCst);
            });
            p2.shutdown_join_timeout(Duration::from_secs(2));
            o.lock().unwrap().push(format!("e:ran_via_clone={}", c.load(Ordering::SeqCst)));
        }),
    );
    let mut v = out.lock().unwrap().clone();
    let names_ok = r.task_names.iter().filter(|t| t.0 != "main").all(|t| t.0.starts_with("cp_thread_"));
    v.insert(2, format!("c:name_prefix_ok={}", names_ok));
    if !r.stuck.is_empty() {
        v.push("MODEL-STUCK".into());
    }
    v
}

// ---------------------------------------------------------------------------------------------
// 3. store differential, real side

struct RealEnv;
type RGate = Arc<(Mutex<usize>, Condvar)>;
impl storescen::Env for RealEnv {
    type Gate = RGate;
    fn gate(&self) -> RGate {
        Arc::new((Mutex::new(0), Condvar::new()))
    }
    fn pass(g: &RGate) {
        let (m, cv) = &**g;
        let mut t = m.lock().unwrap();
        while *t == 0 {
            t = cv.wait(t).unwrap();
        }
        *t -= 1;
    }
    fn open(g: &RGate, n: usize) {
        let (m, cv) = &**g;
        *m.lock().unwrap() += n;
        cv.notify_all();
    }
    fn settle(&self) {
        std::thread::sleep(Duration::from_millis(120));
    }
    fn spawn(&self, f: Box<dyn FnOnce() + Send>) -> Box<dyn FnOnce()> {
        let h = std::thread::spawn(f);
        Box::new(move || {
            let _ = h.join();
        })
    }
}

fn main() {
    let args: Vec<String> = std::env::args().collect();
    let mut depth = 6usize;
    let mut model_path = "/verif/target/conform_model.json".to_string();
    let mut out_path = "/verif/target/conform.json".to_string();
    let mut i = 1;
    while i < args.len() {
        match args[i].as_str() {
            "--depth" => {
                i += 1;
                depth = args[i].parse().unwrap()
            }
            "--model" => {
                i += 1;
                model_path = args[i].clone()
            }
            "--out" => {
                i += 1;
                out_path = args[i].clone()
            }
            _ => {}
        }
        i += 1;
    }
    // silence the scripted panics of pool jobs
    std::panic::set_hook(Box::new(|_| {}));
    let t0 = std::time::Instant::now();
    let mut problems: Vec<String> = vec![];

    let (nchan, p1, chan_samples) = channel_conformance(depth);
    problems.extend(p1);

    let pr = pool_real();
    let pm = pool_model();
    if pr != pm {
        problems.push(format!("pool scripts: rusty_pool {:?} vs model {:?}", pr, pm));
    }

    let model: serde_json::Value = std::fs::read_to_string(&model_path).ok().and_then(|t| serde_json::from_str(&t).ok()).unwrap_or(serde_json::Value::Null);
    let mut store_runs = 0u64;
    let mut store_samples = vec![];
    if model.is_null() {
        problems.push(format!("model-side records {} missing: run `vcheck conform-model` first", model_path));
    } else {
        for name in storescen::SCENARIOS {
            for round in 0..2 {
                let rec = storescen::run(Arc::new(RealEnv), name);
                store_runs += 1;
                let real = serde_json::to_value(&rec).unwrap();
                if real != model[name] {
                    problems.push(format!("store scenario {} (round {}): real crates {} vs models {}", name, round, real, model[name]));
                    break;
                }
                if round == 0 && store_samples.len() < 2 {
                    store_samples.push(serde_json::json!({"scenario": name, "record": real}));
                }
            }
        }
    }
    let ok = problems.is_empty();
    let out = serde_json::json!({
        "ok": ok,
        "channel_sequences_compared": nchan,
        "channel_depth": depth,
        "pool_scripts": pr,
        "store_scenarios": storescen::SCENARIOS.len(),
        "store_runs_on_real_crates": store_runs,
        "problems": problems,
        "channel_samples": chan_samples,
        "store_samples": store_samples,
        "wall_s": t0.elapsed().as_secs_f64(),
    });
    let _ = std::fs::write(&out_path, serde_json::to_string_pretty(&out).unwrap());
    println!(
        "conform: channel sequences {} (depth {}), pool scripts {}, store runs {} -> {}",
        nchan,
        depth,
        if pr == pm { "agree" } else { "DISAGREE" },
        store_runs,
        if ok { "all agree" } else { "DISAGREEMENT" }
    );
    for p in out["problems"].as_array().unwrap() {
        println!("  {}", p);
    }
    std::process::exit(if ok { 0 } else { 1 });
}
