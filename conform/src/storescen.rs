//! Whole-store differential scenarios, shared (via #[path]) between
//!  * `conform`  — rs-store compiled against the REAL crossbeam / rusty_pool / std threads, and
//!  * `vcheck conform-model` — the same sources compiled against the verif_rt models.
//! Each scenario is deterministic per component (single client, settle points), so the recorded
//! per-component streams must be identical on both sides.

use rs_store::{
    BackpressurePolicy, DispatchOp, Dispatcher, DroppableStore, Effect, Middleware, MiddlewareOp,
    Reducer, Selector, StoreBuilder, StoreError, StoreImpl, Subscriber,
};
use std::collections::BTreeMap;
use std::sync::{Arc, Mutex as StdMutex};

pub type Record = BTreeMap<String, Vec<String>>;

pub trait Env: Send + Sync + 'static {
    type Gate: Clone + Send + Sync + 'static;
    fn gate(&self) -> Self::Gate;
    fn pass(g: &Self::Gate);
    fn open(g: &Self::Gate, n: usize);
    /// wait until nothing more happens on its own
    fn settle(&self);
    fn spawn(&self, f: Box<dyn FnOnce() + Send>) -> Box<dyn FnOnce()>;
}

#[derive(Clone)]
struct Rec(Arc<StdMutex<Record>>);
impl Rec {
    fn push(&self, comp: &str, s: String) {
        self.0.lock().unwrap().entry(comp.to_string()).or_default().push(s);
    }
}

type St = Vec<u32>;
type Act = u32;

struct Red<G> {
    idx: u32,
    rec: Rec,
    gate: Option<(G, fn(&G))>,
}
impl<G: Send + Sync> Reducer<St, Act> for Red<G> {
    fn reduce(&self, state: &St, action: &Act) -> DispatchOp<St, Act> {
        let mut out = state.clone();
        out.push(self.idx * 1000 + *action);
        self.rec.push(&format!("reducer{}", self.idx), format!("{}:{:?}", action, state));
        if let Some((g, pass)) = &self.gate {
            pass(g);
        }
        let rec = self.rec.clone();
        let a = *action;
        let eff: Option<Effect<Act>> = if self.idx == 0 && a < 100 {
            match a % 10 {
                3 => Some(Effect::Task(Box::new(move || rec.push("effects", format!("task{}", a))))),
                4 => Some(Effect::Thunk(Box::new(move |_d| rec.push("effects", format!("thunk{}", a))))),
                6 => Some(Effect::Function(
                    "k".into(),
                    Box::new(move || {
                        rec.push("effects", format!("function{}", a));
                        Ok(Box::new(()) as Box<dyn std::any::Any + Send>)
                    }),
                )),
                7 => Some(Effect::Action(a + 100)),
                8 => Some(Effect::Task(Box::new(move || {
                    rec.push("effects", format!("panictask{}", a));
                    panic!("scripted");
                }))),
                _ => None,
            }
        } else {
            None
        };
        if a % 5 == 0 {
            DispatchOp::Keep(out, eff)
        } else {
            DispatchOp::Dispatch(out, eff)
        }
    }
}

struct Mw {
    idx: u32,
    rec: Rec,
    /// (hook, action % 10) -> verdict code 1 Done 2 Break 3 Err
    table: Vec<(u8, u32, u8)>,
}
impl Mw {
    fn v(&self, hook: u8, a: &Act, st: &St) -> Result<MiddlewareOp, StoreError> {
        let code = self.table.iter().find(|t| t.0 == hook && t.1 == a % 10).map(|t| t.2).unwrap_or(0);
        self.rec.push(&format!("mw{}", self.idx), format!("h{}:{}:{:?}:v{}", hook, a, st, code));
        match code {
            1 => Ok(MiddlewareOp::DoneAction),
            2 => Ok(MiddlewareOp::BreakChain),
            3 => Err(StoreError::MiddlewareError("x".into())),
            _ => Ok(MiddlewareOp::ContinueAction),
        }
    }
}
impl Middleware<St, Act> for Mw {
    fn before_reduce(&self, a: &Act, s: &St, _d: Arc<dyn Dispatcher<Act>>) -> Result<MiddlewareOp, StoreError> {
        self.v(0, a, s)
    }
    fn before_effect(&self, a: &Act, s: &St, e: &mut Vec<Effect<Act>>, _d: Arc<dyn Dispatcher<Act>>) -> Result<MiddlewareOp, StoreError> {
        if self.idx == 1 && a % 10 == 4 && !e.is_empty() {
            e.remove(0);
            self.rec.push(&format!("mw{}", self.idx), format!("removed:{}", a));
        }
        self.v(1, a, s)
    }
    fn before_dispatch(&self, a: &Act, s: &St, _d: Arc<dyn Dispatcher<Act>>) -> Result<MiddlewareOp, StoreError> {
        self.v(2, a, s)
    }
    fn on_error(&self, _e: StoreError) {
        self.rec.push(&format!("mw{}", self.idx), "on_error".into());
    }
}

struct Sub<G> {
    name: String,
    rec: Rec,
    gate: Option<(G, fn(&G))>,
}
impl<G: Send + Sync> Subscriber<St, Act> for Sub<G> {
    fn on_notify(&self, state: &St, action: &Act) {
        self.rec.push(&self.name, format!("{}:{:?}", action, state));
        if let Some((g, pass)) = &self.gate {
            pass(g);
        }
    }
    fn on_unsubscribe(&self) {
        self.rec.push(&self.name, "on_unsubscribe".into());
    }
}

struct Sel;
impl Selector<St, u32> for Sel {
    fn select(&self, s: &St) -> u32 {
        s.last().map(|m| m % 3).unwrap_or(0)
    }
}

pub const SCENARIOS: [&str; 12] = [
    "basic-block",
    "verdicts",
    "parked-block",
    "parked-oldest",
    "parked-latest",
    "chan-oldest-gated",
    "chan-latest-gated",
    "unsubscribe",
    "iterator",
    "after-stop",
    "effects",
    "droppable",
];

fn pol(name: &str) -> BackpressurePolicy {
    if name.contains("oldest") {
        BackpressurePolicy::DropOldest
    } else if name.contains("latest") {
        BackpressurePolicy::DropLatest
    } else {
        BackpressurePolicy::BlockOnFull
    }
}

fn metrics_line(store: &StoreImpl<St, Act>) -> String {
    let m = store.get_metrics();
    format!(
        "received={} dropped={} reduced={} effect_issued={} mw={} errors={}",
        m.action_received, m.action_dropped, m.action_reduced, m.effect_issued, m.middleware_executed, m.error_occurred
    )
}

pub fn run<E: Env>(env: Arc<E>, name: &str) -> Record {
    let rec = Rec(Arc::new(StdMutex::new(Record::new())));
    let none: Option<(E::Gate, fn(&E::Gate))> = None;
    match name {
        "basic-block" | "verdicts" | "effects" => {
            let mut b = StoreBuilder::new(St::new())
                .with_reducers(vec![
                    Box::new(Red { idx: 0, rec: rec.clone(), gate: none.clone() }),
                    Box::new(Red { idx: 1, rec: rec.clone(), gate: none.clone() }),
                ])
                .with_capacity(2)
                .with_name("n".into());
            if name != "effects" {
                let t0: Vec<(u8, u32, u8)> = if name == "verdicts" { vec![(0, 2, 1), (1, 3, 2), (2, 1, 3), (0, 6, 3)] } else { vec![] };
                let t1: Vec<(u8, u32, u8)> = if name == "verdicts" { vec![(2, 3, 1), (0, 1, 2), (1, 6, 1)] } else { vec![] };
                b = b.with_middlewares(vec![
                    Arc::new(Mw { idx: 0, rec: rec.clone(), table: t0 }),
                    Arc::new(Mw { idx: 1, rec: rec.clone(), table: t1 }),
                ]);
            }
            let store = b.build().unwrap();
            let _s1 = store.add_subscriber(Arc::new(Sub { name: "direct".into(), rec: rec.clone(), gate: none.clone() }));
            let _s2 = store
                .subscribed_with(1, BackpressurePolicy::BlockOnFull, Box::new(Sub { name: "channeled".into(), rec: rec.clone(), gate: none.clone() }))
                .unwrap();
            let r2 = rec.clone();
            let _s3 = store.subscribe_with_selector(Sel, move |v: u32, a: Act| r2.push("selector", format!("{}:{}", a, v)));
            let acts: Vec<u32> = if name == "effects" { vec![3, 4, 6, 7, 8, 13, 1] } else { vec![1, 2, 3, 4, 5, 6, 11] };
            for a in acts {
                rec.push("client", format!("dispatch{}={}", a, store.dispatch(a).is_ok()));
                // one action (with its effects and Effect::Action child) at a time keeps the
                // schedule space of the model side small
                env.settle();
            }
            store.stop();
            rec.push("client", format!("final={:?}", store.get_state()));
            rec.push("client", metrics_line(&store));
        }
        "parked-block" | "parked-oldest" | "parked-latest" => {
            let g = env.gate();
            let store = StoreBuilder::new(St::new())
                .with_reducer(Box::new(Red { idx: 0, rec: rec.clone(), gate: Some((g.clone(), E::pass as fn(&E::Gate))) }))
                .with_capacity(2)
                .with_policy(pol(name))
                .build()
                .unwrap();
            let _ = store.dispatch(1);
            env.settle();
            let s2 = store.clone();
            let r2 = rec.clone();
            let via = name == "parked-latest";
            let join = env.spawn(Box::new(move || {
                for a in [11u32, 12, 13, 14] {
                    let ok = if via { Dispatcher::dispatch(&s2, a).is_ok() } else { s2.dispatch(a).is_ok() };
                    r2.push("burst", format!("dispatch{}={}", a, ok));
                }
            }));
            env.settle();
            let returned = rec.0.lock().unwrap().get("burst").map(|v| v.len()).unwrap_or(0);
            rec.push("client", format!("returned_while_parked={}", returned));
            E::open(&g, 1);
            env.settle();
            let returned = rec.0.lock().unwrap().get("burst").map(|v| v.len()).unwrap_or(0);
            rec.push("client", format!("returned_after_one_token={}", returned));
            E::open(&g, 16);
            join();
            env.settle();
            store.stop();
            rec.push("client", format!("final={:?}", store.get_state()));
            rec.push("client", metrics_line(&store));
        }
        "chan-oldest-gated" | "chan-latest-gated" => {
            let g = env.gate();
            let store = StoreBuilder::new(St::new())
                .with_reducer(Box::new(Red { idx: 0, rec: rec.clone(), gate: none.clone() }))
                .build()
                .unwrap();
            let _s = store
                .subscribed_with(1, pol(name), Box::new(Sub { name: "channeled".into(), rec: rec.clone(), gate: Some((g.clone(), E::pass as fn(&E::Gate))) }))
                .unwrap();
            // the subscriber takes the first notification and parks inside its callback
            let _ = store.dispatch(1);
            env.settle();
            for a in [2u32, 11, 12] {
                let _ = store.dispatch(a);
            }
            env.settle();
            rec.push("client", format!("reduced_while_sub_parked={}", rec.0.lock().unwrap().get("reducer0").map(|v| v.len()).unwrap_or(0)));
            E::open(&g, 16);
            store.stop();
            rec.push("client", format!("final={:?}", store.get_state()));
        }
        "unsubscribe" => {
            let store = StoreBuilder::new(St::new())
                .with_reducer(Box::new(Red { idx: 0, rec: rec.clone(), gate: none.clone() }))
                .build()
                .unwrap();
            let s1 = store.add_subscriber(Arc::new(Sub { name: "direct".into(), rec: rec.clone(), gate: none.clone() }));
            let s2 = store
                .subscribed_with(2, BackpressurePolicy::BlockOnFull, Box::new(Sub { name: "channeled".into(), rec: rec.clone(), gate: none.clone() }))
                .unwrap();
            let _s3 = store.add_subscriber(Arc::new(Sub { name: "stays".into(), rec: rec.clone(), gate: none.clone() }));
            let _ = store.dispatch(1);
            let _ = store.dispatch(2);
            env.settle();
            s1.unsubscribe();
            s2.unsubscribe();
            s1.unsubscribe();
            let _ = store.dispatch(3);
            let _ = store.dispatch(4);
            store.stop();
        }
        "iterator" => {
            let store = StoreBuilder::new(St::new())
                .with_reducer(Box::new(Red { idx: 0, rec: rec.clone(), gate: none.clone() }))
                .build()
                .unwrap();
            let s2 = store.clone();
            let r2 = rec.clone();
            let g = env.gate();
            let g2 = g.clone();
            let join = env.spawn(Box::new(move || {
                let mut it = s2.iter();
                E::open(&g2, 1);
                while let Some((st, a)) = it.next() {
                    r2.push("iter", format!("{}:{:?}", a, st));
                }
                r2.push("iter", format!("again={:?}", it.next().is_none()));
            }));
            E::pass(&g); // the iterator exists
            for a in [1u32, 5, 2, 3] {
                let _ = store.dispatch(a);
            }
            store.stop();
            join();
        }
        "after-stop" => {
            let store = StoreBuilder::new(St::new())
                .with_reducer(Box::new(Red { idx: 0, rec: rec.clone(), gate: none.clone() }))
                .with_capacity(1)
                .build()
                .unwrap();
            let _s1 = store.add_subscriber(Arc::new(Sub { name: "direct".into(), rec: rec.clone(), gate: none.clone() }));
            for a in [1u32, 2, 3] {
                let _ = store.dispatch(a);
            }
            store.stop();
            rec.push("client", format!("d1={}", store.dispatch(9).is_ok()));
            rec.push("client", format!("d2={}", Dispatcher::dispatch(&store, 9).is_ok()));
            let d: &dyn rs_store::Store<St, Act> = &*store;
            rec.push("client", format!("d3={}", d.dispatch(9).is_ok()));
            store.stop();
            store.close();
            rec.push("client", format!("final={:?}", store.get_state()));
            rec.push("client", metrics_line(&store));
        }
        "droppable" => {
            let store = StoreBuilder::new(St::new())
                .with_reducer(Box::new(Red { idx: 0, rec: rec.clone(), gate: none.clone() }))
                .build()
                .unwrap();
            let _s1 = store.add_subscriber(Arc::new(Sub { name: "direct".into(), rec: rec.clone(), gate: none.clone() }));
            let d = DroppableStore::new(store.clone());
            for a in [1u32, 2, 3] {
                let _ = d.dispatch(a);
            }
            drop(d);
            rec.push("client", format!("d1={}", store.dispatch(9).is_ok()));
            rec.push("client", format!("final={:?}", store.get_state()));
        }
        _ => panic!("unknown scenario {}", name),
    }
    let mut r = rec.0.lock().unwrap().clone();
    if let Some(e) = r.get_mut("effects") {
        e.sort();
    }
    r
}
