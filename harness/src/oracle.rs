//! Log-reading helpers shared by the per-property oracles.

use verif_rt::core::{ExecResult, Role, Wait};
use verif_rt::explore::Finding;
use verif_rt::{Ev, StV};

#[derive(Clone, Debug)]
pub struct CbEv<'a> {
    pub i: usize,
    pub task: u32,
    pub kind: &'static str,
    pub comp: u32,
    pub act: u32,
    pub st: &'a StV,
    pub out: &'a StV,
    pub x: i64,
}

#[derive(Clone, Debug)]
pub struct CallEv<'a> {
    pub i: usize,
    pub task: u32,
    pub op: &'static str,
    pub a: i64,
    pub ok: bool,
    pub st: &'a StV,
}

pub fn cbs<'a>(r: &'a ExecResult) -> impl Iterator<Item = CbEv<'a>> + 'a {
    r.log.iter().enumerate().filter_map(|(i, rec)| match &rec.ev {
        Ev::Cb { kind, comp, act, st, out, x } => Some(CbEv {
            i,
            task: rec.task,
            kind,
            comp: *comp,
            act: *act,
            st,
            out,
            x: *x,
        }),
        _ => None,
    })
}

pub fn cbs_of<'a>(r: &'a ExecResult, kind: &'static str) -> impl Iterator<Item = CbEv<'a>> + 'a {
    cbs(r).filter(move |c| c.kind == kind)
}

static EMPTY: StV = Vec::new();

pub fn calls<'a>(r: &'a ExecResult, op: &'static str) -> impl Iterator<Item = CallEv<'a>> + 'a {
    r.log.iter().enumerate().filter_map(move |(i, rec)| match &rec.ev {
        Ev::Call { op: o, a } if *o == op => {
            Some(CallEv { i, task: rec.task, op: o, a: *a, ok: true, st: &EMPTY })
        }
        _ => None,
    })
}

pub fn rets<'a>(r: &'a ExecResult, op: &'static str) -> impl Iterator<Item = CallEv<'a>> + 'a {
    r.log.iter().enumerate().filter_map(move |(i, rec)| match &rec.ev {
        Ev::Ret { op: o, a, ok, st } if *o == op => {
            Some(CallEv { i, task: rec.task, op: o, a: *a, ok: *ok, st })
        }
        _ => None,
    })
}

pub fn notes<'a>(r: &'a ExecResult, what: &'static str) -> impl Iterator<Item = (usize, i64, i64)> + 'a {
    r.log.iter().enumerate().filter_map(move |(i, rec)| match &rec.ev {
        Ev::Note { what: w, a, b } if *w == what => Some((i, *a, *b)),
        _ => None,
    })
}

/// log index of the first return of `stop` (usize::MAX if none)
pub fn first_stop_ret(r: &ExecResult) -> usize {
    rets(r, "stop").map(|c| c.i).next().unwrap_or(usize::MAX)
}
pub fn first_stop_call(r: &ExecResult) -> usize {
    calls(r, "stop").map(|c| c.i).next().unwrap_or(usize::MAX)
}

pub fn elem_kind(elem: &str) -> &'static str {
    if !elem.contains("ActionOp<") {
        "other"
    } else if elem.contains("ActionOp<(verif_rt::time::Instant") {
        "subch"
    } else if elem.contains("ActionOp<(") {
        "iter"
    } else {
        "dispatch"
    }
}

/// channels a task has taken items from
pub fn chans_received_by(r: &ExecResult, task: u32) -> Vec<u32> {
    let mut v: Vec<u32> = vec![];
    for rec in &r.log {
        if rec.task == task {
            if let Ev::ChanRecv { ch, .. } = rec.ev {
                if !v.contains(&ch) {
                    v.push(ch);
                }
            }
        }
    }
    v
}

/// The dispatch queue(s), identified by behaviour (what the reducer context reads from) rather
/// than by payload type names, which are the implementation's business; the type name is only
/// the fall-back when nothing was reduced.
pub fn dispatch_chans(r: &ExecResult) -> Vec<u32> {
    let by_behaviour: Vec<u32> = cbs_of(r, "reduce").map(|c| c.task).next().map(|t| chans_received_by(r, t)).unwrap_or_default();
    if !by_behaviour.is_empty() {
        return by_behaviour;
    }
    r.chans.iter().enumerate().filter(|(_, c)| elem_kind(c.elem) == "dispatch").map(|(i, _)| i as u32).collect()
}

pub fn role_s(r: Role) -> &'static str {
    match r {
        Role::Main => "main",
        Role::Client => "client",
        Role::Internal => "internal",
    }
}

pub fn wait_s(w: &Wait, elem: &str) -> String {
    match w {
        Wait::None => "none".into(),
        Wait::Mutex(_) => "mutex".into(),
        Wait::Send(_) | Wait::SendT(_) => format!("send({})", elem_kind(elem)),
        Wait::Recv(_) | Wait::RecvT(_) => format!("recv({})", elem_kind(elem)),
        Wait::Join(_) => "join".into(),
        Wait::Pool { timed, .. } => if *timed { "pool_timed".into() } else { "pool".into() },
        Wait::Gate(_) => "gate".into(),
        Wait::Quiesce => "quiesce".into(),
    }
}

/// signature of an end state with unfinished tasks: sorted multiset of role@wait
pub fn stuck_sig(r: &ExecResult) -> String {
    let mut v: Vec<String> =
        r.stuck.iter().map(|s| format!("{}@{}", role_s(s.role), wait_s(&s.wait, s.elem))).collect();
    v.sort();
    v.dedup();
    v.join(",")
}

/// Findings every scenario family reports: tasks that never finished, timeouts that fired,
/// uncaught panics outside pool jobs.  `allow_panic`: substring of panic messages that are part of
/// the scenario (e.g. the scripted effect panic is contained by the pool and never shows here).
pub fn sanity(r: &ExecResult) -> Vec<Finding> {
    let mut f = vec![];
    if !r.stuck.is_empty() {
        f.push(Finding {
            sig: format!("stuck:{}", stuck_sig(r)),
            msg: format!(
                "execution ended with unfinished tasks: {}",
                r.stuck
                    .iter()
                    .map(|s| format!("t{} {} {:?} {}", s.task, s.name, s.wait, s.detail))
                    .collect::<Vec<_>>()
                    .join("; ")
            ),
        });
    }
    if r.timeouts > 0 {
        f.push(Finding {
            sig: "timeout".into(),
            msg: "a timed wait expired (a pool join inside stop()/drop, or a channel operation with a timeout, gave up instead of completing)".into(),
        });
    }
    if notes(r, "stale_object").next().is_some() {
        f.push(Finding {
            sig: "process-wide-state".into(),
            msg: "a thread-pool handle created by a store of an EARLIER execution was used in this one: the code under test keeps process-wide state shared between store instances (the handle is inert here; in a real process it would be live)".into(),
        });
    }
    for rec in &r.log {
        if let Ev::TaskPanic { msg } = &rec.ev {
            f.push(Finding {
                sig: "task-panic".into(),
                msg: format!("task t{} panicked: {}", rec.task, msg),
            });
        }
    }
    f
}

pub fn fnd(sig: &str, msg: String) -> Finding {
    Finding { sig: sig.to_string(), msg }
}

pub fn fmt_st(s: &[u32]) -> String {
    let v: Vec<String> =
        s.iter().map(|m| format!("r{}a{}", (m >> 16).wrapping_sub(1), m & 0xffff)).collect();
    format!("[{}]", v.join(" "))
}

// ---------------------------------------------------------------------------------------------
// pipeline view

use std::collections::HashMap;

/// What the reducer context did, read off the scripted reducers' events.
pub struct Pipe {
    /// actions in reduce order (first reducer call of each action; a vetoed action is absent)
    pub order: Vec<u32>,
    /// state produced by the action's last reducer call
    pub after: HashMap<u32, StV>,
    /// log index of the action's last reducer call
    pub last_reduce_idx: HashMap<u32, usize>,
    /// answer of the last reducer that ran for the action: true = Dispatch (notify)
    pub notifies: HashMap<u32, bool>,
    /// all reducers of the chain gave the same answer for this action
    pub uniform: HashMap<u32, bool>,
    pub reducer_task: Option<u32>,
}

pub fn pipe(r: &ExecResult) -> Pipe {
    let mut p = Pipe {
        order: vec![],
        after: HashMap::new(),
        last_reduce_idx: HashMap::new(),
        notifies: HashMap::new(),
        uniform: HashMap::new(),
        reducer_task: None,
    };
    for c in cbs_of(r, "reduce") {
        if !p.order.contains(&c.act) {
            p.order.push(c.act);
            p.uniform.insert(c.act, true);
        } else if p.notifies.get(&c.act) != Some(&(c.x == 0)) {
            p.uniform.insert(c.act, false);
        }
        p.after.insert(c.act, c.out.clone());
        p.last_reduce_idx.insert(c.act, c.i);
        p.notifies.insert(c.act, c.x == 0);
        p.reducer_task = Some(c.task);
    }
    p
}

impl Pipe {
    /// the notification stream a subscriber registered for the whole run must see
    pub fn expected_stream(&self) -> Vec<(u32, StV)> {
        self.order
            .iter()
            .filter(|a| self.notifies[*a])
            .map(|a| (*a, self.after[a].clone()))
            .collect()
    }
}

/// (log index, action, state) of every event of `kind` for component `comp`
pub fn stream(r: &ExecResult, kind: &'static str, comp: u32) -> Vec<(usize, u32, StV)> {
    cbs_of(r, kind).filter(|c| c.comp == comp).map(|c| (c.i, c.act, c.st.clone())).collect()
}

pub fn strip(s: &[(usize, u32, StV)]) -> Vec<(u32, StV)> {
    s.iter().map(|x| (x.1, x.2.clone())).collect()
}

pub fn fmt_stream(s: &[(u32, StV)]) -> String {
    let v: Vec<String> = s.iter().map(|(a, st)| format!("{}:{}", a, fmt_st(st))).collect();
    v.join(", ")
}

/// is `sub` an in-order subsequence of `full`?
pub fn is_subsequence<T: PartialEq>(sub: &[T], full: &[T]) -> bool {
    let mut j = 0;
    for x in full {
        if j < sub.len() && sub[j] == *x {
            j += 1;
        }
    }
    j == sub.len()
}

pub fn timeout_before(r: &ExecResult, idx: usize) -> bool {
    r.log.iter().take(idx.min(r.log.len())).any(|rec| matches!(rec.ev, Ev::TimeoutFired { .. }))
}

// ---------------------------------------------------------------------------------------------
// hang classification (C13, C14)

/// Root causes of an end state in which a client (or main) never returned from a call:
/// follow mutex holders / joined tasks / pool jobs down to the tasks blocked on a channel.
pub fn hang_roots(r: &ExecResult) -> Vec<&verif_rt::Stuck> {
    let by_task = |t: u32| r.stuck.iter().find(|s| s.task == t);
    let mut roots: Vec<&verif_rt::Stuck> = vec![];
    let mut seen: Vec<u32> = vec![];
    let mut work: Vec<&verif_rt::Stuck> = r.stuck.iter().filter(|s| s.role != Role::Internal).collect();
    while let Some(s) = work.pop() {
        if seen.contains(&s.task) {
            continue;
        }
        seen.push(s.task);
        match &s.wait {
            Wait::Mutex(_) => {
                if let Some(h) = s.holder.and_then(by_task) {
                    work.push(h);
                } else {
                    roots.push(s);
                }
            }
            Wait::Join(t) => {
                if let Some(h) = by_task(*t) {
                    work.push(h);
                } else {
                    roots.push(s);
                }
            }
            Wait::Pool { pool, .. } => {
                let prefix = format!("{}_thread_", r.pools[*pool as usize].name);
                let mut any = false;
                for j in r.stuck.iter().filter(|x| x.name.starts_with(&prefix)) {
                    work.push(j);
                    any = true;
                }
                if !any {
                    roots.push(s);
                }
            }
            Wait::Send(ch) | Wait::SendT(ch) => {
                // a sender on a full channel waits for that channel's consumer: the task(s) that
                // have been receiving from it (e.g. the reducer loop for the dispatch queue)
                let mut any = false;
                for rec in &r.log {
                    if let Ev::ChanRecv { ch: c, .. } = rec.ev {
                        if c == *ch && rec.task != s.task {
                            if let Some(cons) = by_task(rec.task) {
                                if !seen.contains(&cons.task) {
                                    work.push(cons);
                                }
                                any = true;
                            }
                        }
                    }
                }
                if !any {
                    roots.push(s);
                }
            }
            _ => roots.push(s),
        }
    }
    roots
}

/// Finding for executions where a client call never returned or a timeout fired; `None` when
/// every client returned and no timeout fired (leaked internal threads alone are not reported).
/// Known root causes get their own signatures:
///  * hang-iter-dropped-unread (KF-4): blocked `send` on an iterator channel whose consumer is gone
///  * hang-iter-created-after-stop (KF-6): `next()` on an iterator created after stop()/close()
pub fn classify_hang(r: &ExecResult) -> Option<Finding> {
    let clients_stuck = r.stuck.iter().any(|s| s.role != Role::Internal);
    if !clients_stuck && r.timeouts == 0 {
        return None;
    }
    let sc = first_stop_call(r).min(calls(r, "close").map(|c| c.i).next().unwrap_or(usize::MAX));
    let mut roots = hang_roots(r);
    if r.timeouts > 0 {
        // a timed-out pool join: whatever keeps pool jobs from finishing is a root too
        for s in r.stuck.iter().filter(|s| s.role == Role::Internal && s.name.contains("_thread_")) {
            if !roots.iter().any(|x| x.task == s.task) {
                let mut sub = vec![s];
                let mut seen = vec![];
                while let Some(x) = sub.pop() {
                    if seen.contains(&x.task) {
                        continue;
                    }
                    seen.push(x.task);
                    match (&x.wait, x.holder) {
                        (Wait::Mutex(_), Some(h)) => {
                            if let Some(hs) = r.stuck.iter().find(|y| y.task == h) {
                                sub.push(hs);
                            }
                        }
                        _ => {
                            if !roots.iter().any(|y| y.task == x.task) {
                                roots.push(x);
                            }
                        }
                    }
                }
            }
        }
    }
    let mut kf4 = false;
    let mut kf6 = false;
    let mut unknown: Vec<String> = vec![];
    for s in &roots {
        match &s.wait {
            Wait::Send(ch) if elem_kind(s.elem) == "iter" && r.chans[*ch as usize].receivers <= 1 => kf4 = true,
            Wait::Recv(_)
                if s.role == Role::Client
                    && (elem_kind(s.elem) == "iter"
                        || r.log.iter().rev().find(|rec| rec.task == s.task && matches!(rec.ev, Ev::Call { .. })).map(|rec| matches!(rec.ev, Ev::Call { op: "iter_next", .. })).unwrap_or(false)) =>
            {
                // the iterator this client is reading was created after stop()/close()?
                // (a task may hold several iterators: go by the id of the pending next())
                let id = r.log.iter().rev().find_map(|rec| match (&rec.ev, rec.task == s.task) {
                    (Ev::Call { op: "iter_next", a }, true) => Some(*a),
                    _ => None,
                });
                let created = r
                    .log
                    .iter()
                    .enumerate()
                    .filter(|(_, rec)| rec.task == s.task && matches!(&rec.ev, Ev::Ret { op: "iter", a, .. } if Some(*a) == id))
                    .map(|(i, _)| i)
                    .last();
                let call = r
                    .log
                    .iter()
                    .enumerate()
                    .filter(|(_, rec)| rec.task == s.task && matches!(&rec.ev, Ev::Call { op: "iter", a } if Some(*a) == id))
                    .map(|(i, _)| i)
                    .last();
                match (call, created) {
                    (Some(_), Some(ret)) if ret > sc => kf6 = true,
                    _ => unknown.push(format!("{}@{}", role_s(s.role), wait_s(&s.wait, s.elem))),
                }
            }
            _ => unknown.push(format!("{}@{}", role_s(s.role), wait_s(&s.wait, s.elem))),
        }
    }
    let desc = format!(
        "unfinished: {}; timeouts fired: {}",
        r.stuck.iter().map(|s| format!("t{} {} {:?} {}", s.task, s.name, s.wait, s.detail)).collect::<Vec<_>>().join("; "),
        r.timeouts
    );
    if !unknown.is_empty() || (!kf4 && !kf6) {
        unknown.sort();
        unknown.dedup();
        return Some(fnd(&format!("deadlock:{}", if !unknown.is_empty() { unknown.join(",") } else if r.stuck.iter().any(|s| s.role != Role::Internal) { "wait-cycle".to_string() } else { "timeout".to_string() }), format!("a client call never returned or stop() timed out — {}", desc)));
    }
    let sig = match (kf4, kf6) {
        (true, true) => "hang-iter-dropped-unread+created-after-stop",
        (true, false) => "hang-iter-dropped-unread",
        _ => "hang-iter-created-after-stop",
    };
    Some(fnd(sig, desc))
}

/// like `sanity` but with hang classification instead of the raw stuck signature
pub fn sanity_classified(r: &ExecResult) -> Vec<Finding> {
    let mut f = vec![];
    if let Some(h) = classify_hang(r) {
        f.push(h);
    }
    for rec in &r.log {
        if let Ev::TaskPanic { msg } = &rec.ev {
            f.push(fnd("task-panic", format!("task t{} panicked: {}", rec.task, msg)));
        }
    }
    f
}
