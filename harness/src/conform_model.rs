//! `vcheck conform-model` — model side of the whole-store differential (see conform/src/main.rs):
//! runs the shared scenarios of `storescen.rs` on the verif_rt models under every schedule with at
//! most one preemption, checks that the per-component record does not depend on the schedule, and
//! writes the records for the real-crate side to compare with.

use crate::storescen::{self, Env, Record};
use std::sync::{Arc, Mutex};
use verif_rt::core::{self, RunOpts};
use verif_rt::explore::Dfs;

struct ModelEnv;
impl Env for ModelEnv {
    type Gate = verif_rt::Gate;
    fn gate(&self) -> verif_rt::Gate {
        verif_rt::Gate::new(0)
    }
    fn pass(g: &verif_rt::Gate) {
        g.pass()
    }
    fn open(g: &verif_rt::Gate, n: usize) {
        g.open(n)
    }
    fn settle(&self) {
        verif_rt::quiesce()
    }
    fn spawn(&self, f: Box<dyn FnOnce() + Send>) -> Box<dyn FnOnce()> {
        let h = verif_rt::thread::spawn_client("helper", f);
        Box::new(move || {
            let _ = h.join();
        })
    }
}

pub fn run(out_path: &str, bound: u32) -> i32 {
    let only = std::env::var("CONFORM_ONLY").ok();
    let results: Vec<(String, Result<(Record, u64), String>)> = std::thread::scope(|sc| {
        let hs: Vec<_> = storescen::SCENARIOS
            .iter()
            .filter(|n| only.as_deref().map(|o| o == **n).unwrap_or(true))
            .map(|name| {
                sc.spawn(move || {
                    let mut dfs = Dfs::new(bound, &[]);
                    let mut first: Option<Record> = None;
                    let mut n = 0u64;
                    loop {
                        dfs.begin();
                        let slot: Arc<Mutex<Option<Record>>> = Arc::new(Mutex::new(None));
                        let s2 = slot.clone();
                        let nm = name.to_string();
                        let r = core::execute(
                            &mut dfs,
                            RunOpts { elide: vec![crate::common::ELIDE_MW, crate::common::ELIDE_RED], ..Default::default() },
                            Box::new(move || {
                                let rec = storescen::run(Arc::new(ModelEnv), &nm);
                                *s2.lock().unwrap() = Some(rec);
                            }),
                        );
                        n += 1;
                        if let Some(f) = r.fatal {
                            return (name.to_string(), Err(format!("machinery: {}", f)));
                        }
                        if let Err(e) = dfs.end() {
                            return (name.to_string(), Err(e));
                        }
                        if !r.stuck.is_empty() || r.timeouts > 0 {
                            return (name.to_string(), Err(format!("model execution did not finish cleanly (choices {:?})", dfs.choices())));
                        }
                        let rec = slot.lock().unwrap().take().unwrap();
                        match &first {
                            None => first = Some(rec),
                            Some(f) if *f != rec => {
                                return (
                                    name.to_string(),
                                    Err(format!("record depends on the schedule (choices {:?}): {:?} vs {:?}", dfs.choices(), f, rec)),
                                )
                            }
                            _ => {}
                        }
                        if !dfs.advance() {
                            break;
                        }
                    }
                    (name.to_string(), Ok((first.unwrap(), n)))
                })
            })
            .collect();
        hs.into_iter().map(|h| h.join().unwrap()).collect()
    });
    let mut map = serde_json::Map::new();
    let mut total = 0u64;
    let mut bad = false;
    for (name, res) in results {
        match res {
            Ok((rec, n)) => {
                total += n;
                println!("  {:<20} {:>8} executions", name, n);
                map.insert(name, serde_json::to_value(&rec).unwrap());
            }
            Err(e) => {
                eprintln!("conform-model: scenario {}: {}", name, e);
                bad = true;
            }
        }
    }
    map.insert("_model_executions".into(), serde_json::json!(total));
    if std::fs::write(out_path, serde_json::to_string_pretty(&serde_json::Value::Object(map)).unwrap()).is_err() {
        eprintln!("conform-model: cannot write {}", out_path);
        return 2;
    }
    println!("conform-model: {} scenarios, {} model executions (<= {} preemption), records in {}", storescen::SCENARIOS.len(), total, bound, out_path);
    if bad {
        2
    } else {
        0
    }
}
