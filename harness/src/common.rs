//! Building blocks shared by all scenario families: the state/action alphabet, scripted
//! reducers / middlewares / subscribers / effects that log what they see, and logged wrappers
//! around the public API calls made by client tasks.

use rs_store::{
    BackpressurePolicy, DispatchOp, Dispatcher, Effect, Middleware, MiddlewareOp, Reducer,
    StoreBuilder, StoreError, StoreImpl, Subscriber, Subscription,
};
use std::sync::Arc;
use verif_rt::{log, Ev, Gate, StV};

/// State = the exact history of reducer calls: reducer `r` handling action `a` appends
/// `mark(r, a)`.  The fold is injective and non-commutative, so a lost, duplicated or reordered
/// action, a reducer fed a stale state or a half-applied chain all show in the value itself.
#[derive(Clone, Debug, Default, PartialEq, Eq, Hash)]
pub struct St(pub Vec<u32>);

pub fn mark(r: u32, a: u32) -> u32 {
    ((r + 1) << 16) | a
}
pub fn mark_action(m: u32) -> u32 {
    m & 0xffff
}
pub fn mark_reducer(m: u32) -> u32 {
    (m >> 16) - 1
}

/// effect kinds a scripted reducer can return for an action
pub const EFF_NONE: u8 = 0;
pub const EFF_TASK: u8 = 1;
pub const EFF_THUNK: u8 = 2;
pub const EFF_FUNCTION: u8 = 3;
/// Effect::Action(child) where child id = parent id + 1000
pub const EFF_ACTION: u8 = 4;
pub const EFF_PANIC_TASK: u8 = 5;
/// a Task that parks on the scenario's effect gate
pub const EFF_GATED_TASK: u8 = 6;
/// a Thunk that dispatches child (parent id + 1000) through the dispatcher it is handed
pub const EFF_THUNK_DISPATCH: u8 = 7;

pub const CHILD_OFFSET: u32 = 1000;

#[derive(Clone, Debug, PartialEq, Eq, Hash)]
pub struct Act {
    /// 100 * producer + sequence number (children: + 1000)
    pub id: u32,
    /// bit r set: reducer r answers Keep for this action
    pub keep_mask: u8,
    /// effect kind returned by reducer r
    pub eff: [u8; 3],
}

impl Act {
    pub fn new(id: u32) -> Act {
        Act { id, keep_mask: 0, eff: [0; 3] }
    }
    pub fn keep(mut self, mask: u8) -> Act {
        self.keep_mask = mask;
        self
    }
    pub fn eff(mut self, r: usize, kind: u8) -> Act {
        self.eff[r] = kind;
        self
    }
}

pub type Store = Arc<StoreImpl<St, Act>>;

#[derive(Clone, Copy, Debug, PartialEq, Eq, Hash)]
pub enum Pol {
    Block,
    Oldest,
    Latest,
}
impl Pol {
    pub fn to(self) -> BackpressurePolicy {
        match self {
            Pol::Block => BackpressurePolicy::BlockOnFull,
            Pol::Oldest => BackpressurePolicy::DropOldest,
            Pol::Latest => BackpressurePolicy::DropLatest,
        }
    }
    pub fn s(self) -> &'static str {
        match self {
            Pol::Block => "block",
            Pol::Oldest => "oldest",
            Pol::Latest => "latest",
        }
    }
    pub const ALL: [Pol; 3] = [Pol::Block, Pol::Oldest, Pol::Latest];
}

// ---------------------------------------------------------------------------------------------
// scripted components

/// shared knobs of one scenario instance (created inside the execution)
#[derive(Clone, Default)]
pub struct Knobs {
    /// reducer 0 parks on this gate inside `reduce` (before computing) for every action
    pub reducer_gate: Option<Gate>,
    /// only this action id parks (None = all)
    pub reducer_gate_only: Option<u32>,
    pub effect_gate: Option<Gate>,
    /// index of the reducer that parks on `reducer_gate` (default 0)
    pub gate_idx: u32,
}

pub struct ScriptReducer {
    pub idx: u32,
    pub knobs: Knobs,
}

pub fn make_effect(kind: u8, parent: u32, slot: u32, knobs: &Knobs) -> Option<Effect<Act>> {
    let x = kind as i64;
    match kind {
        EFF_NONE => None,
        EFF_TASK => Some(Effect::Task(Box::new(move || {
            log(Ev::Cb { kind: "effect", comp: slot, act: parent, st: vec![], out: vec![], x });
        }))),
        EFF_PANIC_TASK => Some(Effect::Task(Box::new(move || {
            log(Ev::Cb { kind: "effect", comp: slot, act: parent, st: vec![], out: vec![], x });
            panic!("scripted effect panic");
        }))),
        EFF_GATED_TASK => {
            let g = knobs.effect_gate;
            Some(Effect::Task(Box::new(move || {
                log(Ev::Cb { kind: "effect", comp: slot, act: parent, st: vec![], out: vec![], x });
                if let Some(g) = g {
                    g.pass();
                }
                log(Ev::Cb { kind: "effect_end", comp: slot, act: parent, st: vec![], out: vec![], x });
            })))
        }
        EFF_THUNK => Some(Effect::Thunk(Box::new(move |_d| {
            log(Ev::Cb { kind: "effect", comp: slot, act: parent, st: vec![], out: vec![], x });
        }))),
        EFF_THUNK_DISPATCH => Some(Effect::Thunk(Box::new(move |d| {
            log(Ev::Cb { kind: "effect", comp: slot, act: parent, st: vec![], out: vec![], x });
            let child = parent + CHILD_OFFSET;
            log(Ev::Call { op: "thunk_dispatch", a: child as i64 });
            let r = d.dispatch(Act::new(child));
            log(Ev::Ret { op: "thunk_dispatch", a: child as i64, ok: r.is_ok(), st: vec![] });
        }))),
        EFF_FUNCTION => Some(Effect::Function(
            format!("f{}", parent),
            Box::new(move || {
                log(Ev::Cb { kind: "effect", comp: slot, act: parent, st: vec![], out: vec![], x });
                Ok(Box::new(()) as Box<dyn std::any::Any + Send>)
            }),
        )),
        EFF_ACTION => Some(Effect::Action(Act::new(parent + CHILD_OFFSET))),
        _ => unreachable!(),
    }
}

impl Reducer<St, Act> for ScriptReducer {
    fn reduce(&self, state: &St, action: &Act) -> DispatchOp<St, Act> {
        let mut out = state.0.clone();
        out.push(mark(self.idx, action.id));
        let keep = self.idx < 8 && action.keep_mask & (1u8 << self.idx) != 0;
        log(Ev::Cb {
            kind: "reduce",
            comp: self.idx,
            act: action.id,
            st: state.0.clone(),
            out: out.clone(),
            x: keep as i64,
        });
        if self.idx == self.knobs.gate_idx {
            if let Some(g) = self.knobs.reducer_gate {
                if self.knobs.reducer_gate_only.map(|a| a == action.id).unwrap_or(true) {
                    g.pass();
                }
            }
        }
        let eff = if (self.idx as usize) < 3 {
            make_effect(action.eff[self.idx as usize], action.id, self.idx, &self.knobs)
        } else {
            None
        };
        if keep {
            DispatchOp::Keep(St(out), eff)
        } else {
            DispatchOp::Dispatch(St(out), eff)
        }
    }
}

#[derive(Clone, Copy, Debug, PartialEq, Eq, Hash)]
pub enum Verdict {
    Continue,
    Done,
    Break,
    Err,
}
impl Verdict {
    pub const ALL: [Verdict; 4] = [Verdict::Continue, Verdict::Done, Verdict::Break, Verdict::Err];
    fn to(self) -> Result<MiddlewareOp, StoreError> {
        match self {
            Verdict::Continue => Ok(MiddlewareOp::ContinueAction),
            Verdict::Done => Ok(MiddlewareOp::DoneAction),
            Verdict::Break => Ok(MiddlewareOp::BreakChain),
            Verdict::Err => Err(StoreError::MiddlewareError("scripted".into())),
        }
    }
}

pub const HOOK_REDUCE: usize = 0;
pub const HOOK_EFFECT: usize = 1;
pub const HOOK_DISPATCH: usize = 2;

/// verdict table: (hook, action id) -> verdict
pub type VerdictFn = Arc<dyn Fn(usize, u32) -> Verdict + Send + Sync>;

pub struct ScriptMw {
    pub idx: u32,
    pub verdicts: VerdictFn,
    /// in before_effect, remove the effect at this position (if present)
    pub remove_effect: Option<usize>,
    /// in before_reduce, dispatch this child action through the dispatcher handed to the hook
    pub dispatch_in_hook: Option<u32>,
    /// read the store's state inside before_reduce and before_dispatch (C08); bound after build
    pub read_from: Option<Arc<std::sync::Mutex<Option<std::sync::Weak<StoreImpl<St, Act>>>>>>,
}

impl ScriptMw {
    pub fn passive(idx: u32) -> ScriptMw {
        ScriptMw {
            idx,
            verdicts: Arc::new(|_, _| Verdict::Continue),
            remove_effect: None,
            dispatch_in_hook: None,
            read_from: None,
        }
    }
    fn read(&self, kind: &'static str, act: u32) {
        if let Some(cell) = &self.read_from {
            let w = cell.lock().unwrap().clone();
            if let Some(s) = w.and_then(|w| w.upgrade()) {
                let v = s.get_state();
                log(Ev::Cb { kind, comp: self.idx, act, st: v.0, out: vec![], x: 0 });
            }
        }
    }
}

impl Middleware<St, Act> for ScriptMw {
    fn before_reduce(
        &self,
        action: &Act,
        state: &St,
        dispatcher: Arc<dyn Dispatcher<Act>>,
    ) -> Result<MiddlewareOp, StoreError> {
        let v = (self.verdicts)(HOOK_REDUCE, action.id);
        log(Ev::Cb {
            kind: "mw_before_reduce",
            comp: self.idx,
            act: action.id,
            st: state.0.clone(),
            out: vec![],
            x: v as i64,
        });
        self.read("read_in_before_reduce", action.id);
        if let Some(child_of) = self.dispatch_in_hook {
            if child_of == action.id {
                let child = action.id + CHILD_OFFSET;
                log(Ev::Call { op: "mw_dispatch", a: child as i64 });
                let r = dispatcher.dispatch(Act::new(child));
                log(Ev::Ret { op: "mw_dispatch", a: child as i64, ok: r.is_ok(), st: vec![] });
            }
        }
        v.to()
    }
    fn before_effect(
        &self,
        action: &Act,
        state: &St,
        effects: &mut Vec<Effect<Act>>,
        _dispatcher: Arc<dyn Dispatcher<Act>>,
    ) -> Result<MiddlewareOp, StoreError> {
        let v = (self.verdicts)(HOOK_EFFECT, action.id);
        log(Ev::Cb {
            kind: "mw_before_effect",
            comp: self.idx,
            act: action.id,
            st: state.0.clone(),
            out: vec![],
            x: (v as i64) | ((effects.len() as i64) << 8),
        });
        if let Some(pos) = self.remove_effect {
            if pos < effects.len() {
                let _ = effects.remove(pos);
                log(Ev::Note { what: "effect_removed", a: action.id as i64, b: pos as i64 });
            }
        }
        v.to()
    }
    fn before_dispatch(
        &self,
        action: &Act,
        state: &St,
        _dispatcher: Arc<dyn Dispatcher<Act>>,
    ) -> Result<MiddlewareOp, StoreError> {
        let v = (self.verdicts)(HOOK_DISPATCH, action.id);
        log(Ev::Cb {
            kind: "mw_before_dispatch",
            comp: self.idx,
            act: action.id,
            st: state.0.clone(),
            out: vec![],
            x: v as i64,
        });
        self.read("read_in_before_dispatch", action.id);
        v.to()
    }
    fn on_error(&self, _error: StoreError) {
        log(Ev::Cb { kind: "mw_on_error", comp: self.idx, act: 0, st: vec![], out: vec![], x: 0 });
    }
}

pub struct ScriptSub {
    pub id: u32,
    /// park inside on_notify
    pub gate: Option<Gate>,
    /// read the store's state inside on_notify (C08); Weak to avoid keeping the store alive
    pub read_from: Option<std::sync::Weak<StoreImpl<St, Act>>>,
    /// forward every notification as a new action (id + offset) to another store (C19)
    pub forward_to: Option<(std::sync::Weak<StoreImpl<St, Act>>, u32)>,
    /// gives subscriber objects an allocation size nothing else in an execution uses, so that
    /// the allocator (per-thread LIFO free lists) hands the address of a freed subscriber to the
    /// next subscriber created on that thread: identity-by-address mistakes become reachable
    pub pad: SubPad,
    /// panic inside on_notify for this action id (a callback that does not return normally)
    pub panic_on: Option<u32>,
}

#[derive(Default)]
pub struct SubPad([u64; 29]);

impl ScriptSub {
    pub fn new(id: u32) -> ScriptSub {
        ScriptSub { id, gate: None, read_from: None, forward_to: None, pad: SubPad::default(), panic_on: None }
    }
}

impl Subscriber<St, Act> for ScriptSub {
    fn on_notify(&self, state: &St, action: &Act) {
        // A user callback is an observable event of its own: the reducer context can be preempted
        // right before it (after the store released the lock it snapshotted the subscriber list
        // under), so it gets a scheduling point even though it performs no synchronisation.
        verif_rt::thread::yield_now();
        log(Ev::Cb {
            kind: "notify",
            comp: self.id,
            act: action.id,
            st: state.0.clone(),
            out: vec![],
            x: 0,
        });
        if let Some(w) = &self.read_from {
            if let Some(s) = w.upgrade() {
                let v = s.get_state();
                log(Ev::Cb {
                    kind: "read_in_notify",
                    comp: self.id,
                    act: action.id,
                    st: v.0,
                    out: vec![],
                    x: 0,
                });
            }
        }
        if let Some((w, off)) = &self.forward_to {
            if let Some(s) = w.upgrade() {
                dispatch(&s, Act::new(action.id + off));
            }
        }
        if self.panic_on == Some(action.id) {
            panic!("scripted subscriber panic");
        }
        if let Some(g) = self.gate {
            g.pass();
            log(Ev::Cb {
                kind: "notify_end",
                comp: self.id,
                act: action.id,
                st: vec![],
                out: vec![],
                x: 0,
            });
        }
    }
    fn on_unsubscribe(&self) {
        log(Ev::Cb { kind: "unsub_cb", comp: self.id, act: 0, st: vec![], out: vec![], x: 0 });
    }
}

// ---------------------------------------------------------------------------------------------
// building stores

pub struct StoreCfg {
    pub reducers: u32,
    pub cap: usize,
    pub pol: Pol,
    pub mws: Vec<Arc<dyn Middleware<St, Act> + Send + Sync>>,
    pub knobs: Knobs,
    pub name: Option<String>,
}

impl StoreCfg {
    pub fn new(reducers: u32, cap: usize, pol: Pol) -> StoreCfg {
        StoreCfg { reducers, cap, pol, mws: vec![], knobs: Knobs::default(), name: None }
    }
}

pub fn build_store(cfg: StoreCfg) -> Store {
    let reducers: Vec<Box<dyn Reducer<St, Act> + Send + Sync>> = (0..cfg.reducers)
        .map(|i| {
            Box::new(ScriptReducer { idx: i, knobs: cfg.knobs.clone() })
                as Box<dyn Reducer<St, Act> + Send + Sync>
        })
        .collect();
    let mut b = StoreBuilder::new(St::default())
        .with_reducers(reducers)
        .with_capacity(cfg.cap)
        .with_policy(cfg.pol.to())
        .with_middlewares(cfg.mws);
    if let Some(n) = cfg.name {
        b = b.with_name(n);
    }
    b.build().expect("store build failed")
}

// ---------------------------------------------------------------------------------------------
// logged API calls (client side)

pub fn dispatch(store: &StoreImpl<St, Act>, a: Act) -> bool {
    let id = a.id as i64;
    log(Ev::Call { op: "dispatch", a: id });
    let r = store.dispatch(a);
    log(Ev::Ret { op: "dispatch", a: id, ok: r.is_ok(), st: vec![] });
    r.is_ok()
}

pub fn dispatch_dyn(store: &dyn rs_store::Store<St, Act>, a: Act) -> bool {
    let id = a.id as i64;
    log(Ev::Call { op: "dispatch", a: id });
    let r = store.dispatch(a);
    log(Ev::Ret { op: "dispatch", a: id, ok: r.is_ok(), st: vec![] });
    r.is_ok()
}

/// through the `Dispatcher` trait implemented for `Arc<StoreImpl>`
pub fn dispatch_via_dispatcher(store: &Store, a: Act) -> bool {
    let id = a.id as i64;
    log(Ev::Call { op: "dispatch", a: id });
    let r = Dispatcher::dispatch(store, a);
    log(Ev::Ret { op: "dispatch", a: id, ok: r.is_ok(), st: vec![] });
    r.is_ok()
}

/// `tag` = 10 * store index (so logs of several stores can be told apart)
pub fn stop(store: &StoreImpl<St, Act>, tag: i64) {
    log(Ev::Call { op: "stop", a: tag });
    store.stop();
    log(Ev::Ret { op: "stop", a: tag, ok: true, st: vec![] });
}

pub fn close(store: &StoreImpl<St, Act>, tag: i64) {
    log(Ev::Call { op: "close", a: tag });
    store.close();
    log(Ev::Ret { op: "close", a: tag, ok: true, st: vec![] });
}

pub fn get_state(store: &StoreImpl<St, Act>, tag: i64) -> St {
    log(Ev::Call { op: "get_state", a: tag });
    let v = store.get_state();
    log(Ev::Ret { op: "get_state", a: tag, ok: true, st: v.0.clone() });
    v
}

pub fn add_subscriber(
    store: &StoreImpl<St, Act>,
    sub: Arc<dyn Subscriber<St, Act> + Send + Sync>,
    id: u32,
) -> Box<dyn Subscription> {
    log(Ev::Call { op: "add_subscriber", a: id as i64 });
    let s = store.add_subscriber(sub);
    log(Ev::Ret { op: "add_subscriber", a: id as i64, ok: true, st: vec![] });
    s
}

pub fn subscribed_with(
    store: &StoreImpl<St, Act>,
    cap: usize,
    pol: Pol,
    sub: Box<dyn Subscriber<St, Act> + Send + Sync>,
    id: u32,
) -> Box<dyn Subscription> {
    log(Ev::Call { op: "subscribed", a: id as i64 });
    let s = store.subscribed_with(cap, pol.to(), sub).expect("subscribed_with failed");
    log(Ev::Ret { op: "subscribed", a: id as i64, ok: true, st: vec![] });
    s
}

pub fn unsubscribe(sub: &dyn Subscription, id: u32) {
    log(Ev::Call { op: "unsubscribe", a: id as i64 });
    sub.unsubscribe();
    log(Ev::Ret { op: "unsubscribe", a: id as i64, ok: true, st: vec![] });
}

pub fn note(what: &'static str, a: i64, b: i64) {
    log(Ev::Note { what, a, b });
}

pub fn stv(v: &[u32]) -> StV {
    v.to_vec()
}

/// mutex classes that are touched by the reducer context only, unless a scenario registers
/// reducers / middlewares at run time (checked dynamically by the runtime, see RunOpts::elide)
pub const ELIDE_MW: &str = "dyn rs_store::middleware::Middleware";
pub const ELIDE_RED: &str = "dyn rs_store::reducer::Reducer";

pub fn opts_elide() -> verif_rt::RunOpts {
    verif_rt::RunOpts { elide: vec![ELIDE_MW, ELIDE_RED], ..Default::default() }
}
