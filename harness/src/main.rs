#![allow(dead_code)]
//! vcheck — model-checking driver for the rs-store properties.
//!
//!   vcheck check <ID> [--tier quick|thorough] [--jobs N] [--filter SUBSTR] [--bound N]
//!   vcheck replay <file>
//!   vcheck list <ID> [--tier ..]
//!
//! exit 0: property held on everything explored (KNOWN-FINDING lines possible)
//! exit 1: VIOLATION property=<ID> replay=<path>
//! exit 2: machinery error (never a verdict)

mod common;
mod conform_model;
mod evidence;
mod oracle;
mod prog;
mod props;
mod selftest;
#[path = "../../conform/src/storescen.rs"]
mod storescen;

use std::time::Duration;
use verif_rt::explore::{self, Cfg, Fixed, Scenario};

#[derive(Clone, Copy, PartialEq, Eq, Debug)]
pub enum Tier {
    Quick,
    Thorough,
}
impl Tier {
    pub fn s(self) -> &'static str {
        match self {
            Tier::Quick => "quick",
            Tier::Thorough => "thorough",
        }
    }
}

fn usage() -> ! {
    eprintln!("usage: vcheck check <ID> [--tier quick|thorough] [--jobs N] [--filter S] [--bound N] | replay <file> | list <ID>");
    std::process::exit(2)
}

struct Args {
    cmd: String,
    target: String,
    tier: Tier,
    jobs: usize,
    filter: Option<String>,
    bound: Option<u32>,
    deadline_s: Option<u64>,
    no_stop: bool,
    /// parent mode: split the scenario list over this many sequential child processes (memory of
    /// abandoned executions is returned to the OS between chunks)
    chunks: Option<usize>,
    /// child mode: explore only scenarios with index % n == i and write a partial report
    chunk: Option<(usize, usize)>,
    partial_out: Option<String>,
}

fn parse() -> Args {
    let a: Vec<String> = std::env::args().collect();
    if a.len() < 3 {
        usage();
    }
    let mut tier = match std::env::var("VERIF_TIER").ok().as_deref() {
        Some("thorough") => Tier::Thorough,
        _ => Tier::Quick,
    };
    let mut jobs = std::thread::available_parallelism().map(|n| n.get()).unwrap_or(4);
    let mut filter = None;
    let mut bound = None;
    let mut deadline_s = None;
    let mut no_stop = false;
    let mut chunks = None;
    let mut chunk = None;
    let mut partial_out = None;
    let mut i = 3;
    while i < a.len() {
        match a[i].as_str() {
            "--tier" => {
                i += 1;
                tier = match a.get(i).map(|s| s.as_str()) {
                    Some("quick") => Tier::Quick,
                    Some("thorough") => Tier::Thorough,
                    _ => usage(),
                }
            }
            "--jobs" => {
                i += 1;
                jobs = a.get(i).and_then(|s| s.parse().ok()).unwrap_or_else(|| usage());
            }
            "--filter" => {
                i += 1;
                filter = a.get(i).cloned();
            }
            "--bound" => {
                i += 1;
                bound = a.get(i).and_then(|s| s.parse().ok());
            }
            "--deadline" => {
                i += 1;
                deadline_s = a.get(i).and_then(|s| s.parse().ok());
            }
            "--no-stop" => no_stop = true,
            "--chunks" => {
                i += 1;
                chunks = a.get(i).and_then(|s| s.parse().ok());
            }
            "--chunk" => {
                i += 1;
                chunk = a.get(i).and_then(|s| {
                    let mut it = s.split('/');
                    Some((it.next()?.parse().ok()?, it.next()?.parse().ok()?))
                });
            }
            "--partial-out" => {
                i += 1;
                partial_out = a.get(i).cloned();
            }
            _ => usage(),
        }
        i += 1;
    }
    Args { cmd: a[1].clone(), target: a[2].clone(), tier, jobs, filter, bound, deadline_s, no_stop, chunks, chunk, partial_out }
}

fn main() {
    verif_rt::install_quiet_panic_hook();
    let args = parse();
    match args.cmd.as_str() {
        "check" => std::process::exit(check(&args)),
        "replay" => {
            // same thread name as the explorer's workers (see verif_rt::explore)
            let t = args.target.clone();
            let rc = std::thread::Builder::new()
                .name(verif_rt::explore::ADVERSARIAL_THREAD_NAME.to_string())
                .spawn(move || replay(&t))
                .expect("spawn")
                .join()
                .unwrap_or(2);
            std::process::exit(rc)
        }
        "selftest" => std::process::exit(selftest::run()),
        "conform-model" => std::process::exit(conform_model::run(&args.target, args.bound.unwrap_or(1))),
        "list" => {
            for s in props::scenarios(&args.target, args.tier) {
                println!("{} [{}] bound {}", s.name, s.params, s.bound);
            }
        }
        _ => usage(),
    }
}

fn check(args: &Args) -> i32 {
    let prop = args.target.as_str();
    let seed: i64 = std::env::var("VERIF_SEED").ok().and_then(|s| s.parse().ok()).unwrap_or(0);
    let mut scns = props::scenarios(prop, args.tier);
    if scns.is_empty() {
        eprintln!("no scenarios for property {}", prop);
        return 2;
    }
    if let Some(f) = &args.filter {
        scns.retain(|s| s.name.contains(f.as_str()) || s.params.contains(f.as_str()));
    }
    if let Some(b) = args.bound {
        for s in scns.iter_mut() {
            s.bound = b;
        }
    }
    let known = evidence::load_known(prop);
    let deadline_total = args.deadline_s.unwrap_or(match args.tier {
        Tier::Quick => 45,
        Tier::Thorough => if prop == "C13" { 2400 } else { 1500 },
    });
    let n_scn = scns.len();
    let t0 = std::time::Instant::now();
    // ---- parent of a chunked run
    let chunks = args.chunks.unwrap_or(if args.tier == Tier::Thorough && prop == "C13" && args.chunk.is_none() { 12 } else { 1 });
    if chunks > 1 && args.chunk.is_none() {
        let exe = std::env::current_exe().expect("current_exe");
        let mut merged = explore::Report { stats: vec![], violations: vec![], fatal: None, capped: None, wall_s: 0.0, samples: vec![], elision_redone: 0 };
        for i in 0..chunks {
            let left = deadline_total.saturating_sub(t0.elapsed().as_secs()).max(5);
            let out = format!("/verif/target/partial.{}.{}.json", prop, i);
            let _ = std::fs::remove_file(&out);
            let mut cmd = std::process::Command::new(&exe);
            cmd.arg("check").arg(prop).arg("--tier").arg(args.tier.s()).arg("--jobs").arg(args.jobs.to_string());
            cmd.arg("--chunk").arg(format!("{}/{}", i, chunks)).arg("--partial-out").arg(&out);
            cmd.arg("--deadline").arg((left / (chunks - i) as u64).max(5).to_string());
            if let Some(f) = &args.filter {
                cmd.arg("--filter").arg(f);
            }
            if let Some(b) = args.bound {
                cmd.arg("--bound").arg(b.to_string());
            }
            if args.no_stop {
                cmd.arg("--no-stop");
            }
            let st = cmd.status();
            let part = std::fs::read_to_string(&out).ok().and_then(|t| serde_json::from_str::<serde_json::Value>(&t).ok());
            match (st, part) {
                (Ok(s), Some(p)) if s.success() => evidence::merge_partial(&mut merged, &p),
                (st, _) => {
                    merged.fatal = Some(format!("chunk {}/{} failed: {:?}", i, chunks, st));
                    break;
                }
            }
            let _ = std::fs::remove_file(&out);
            let unknown = merged.violations.iter().any(|v| !known.iter().any(|k| k.matches(&v.sig)));
            if merged.fatal.is_some() || (unknown && !args.no_stop) {
                break;
            }
        }
        merged.wall_s = t0.elapsed().as_secs_f64();
        let extra = props::extra_checks(prop, args.tier, seed);
        return evidence::finish(prop, args.tier, seed, n_scn, &merged, &known, extra);
    }
    if let Some((i, n)) = args.chunk {
        let mut k = 0usize;
        scns.retain(|_| {
            k += 1;
            (k - 1) % n == i
        });
    }
    let cfg = Cfg {
        workers: args.jobs,
        deadline: Duration::from_secs(deadline_total),
        max_execs_per_scenario: match args.tier {
            Tier::Quick => 3_000_000,
            Tier::Thorough => 400_000_000,
        },
        rss_cap_kb: 28 * 1024 * 1024,
        stop_on_unknown: !args.no_stop,
        iterate_bounds: true,
    };
    let is_known = |sig: &str| known.iter().any(|k| k.matches(sig));
    let rep = explore::explore(scns, &cfg, &is_known);
    if let Some(out) = &args.partial_out {
        return evidence::write_partial(out, &rep);
    }
    let extra = props::extra_checks(prop, args.tier, seed);
    evidence::finish(prop, args.tier, seed, n_scn, &rep, &known, extra)
}

fn replay(path: &str) -> i32 {
    let txt = match std::fs::read_to_string(path) {
        Ok(t) => t,
        Err(e) => {
            eprintln!("cannot read {}: {}", path, e);
            return 2;
        }
    };
    let v: serde_json::Value = match serde_json::from_str(&txt) {
        Ok(v) => v,
        Err(e) => {
            eprintln!("bad replay file: {}", e);
            return 2;
        }
    };
    let prop = v["property"].as_str().unwrap_or("");
    let name = v["scenario"].as_str().unwrap_or("");
    let params = v["params"].as_str().unwrap_or("");
    let choices: Vec<u16> = v["choices"]
        .as_array()
        .map(|a| a.iter().filter_map(|x| x.as_u64().map(|n| n as u16)).collect())
        .unwrap_or_default();
    let mut found: Option<Scenario> = None;
    for tier in [Tier::Quick, Tier::Thorough] {
        for s in props::scenarios(prop, tier) {
            if s.name == name && s.params == params {
                found = Some(s);
                break;
            }
        }
        if found.is_some() {
            break;
        }
    }
    let scn = match found {
        Some(s) => s,
        None => {
            eprintln!("scenario {} [{}] of {} not found", name, params, prop);
            return 2;
        }
    };
    let r1 = explore::run_once(&scn, &mut Fixed::new(choices.clone()));
    let r2 = explore::run_once(&scn, &mut Fixed::new(choices.clone()));
    if let Some(f) = r1.fatal.as_ref().or(r2.fatal.as_ref()) {
        eprintln!("machinery error during replay: {}", f);
        return 2;
    }
    if explore::full_hash(&r1) != explore::full_hash(&r2) {
        eprintln!("machinery error: two replays of the same schedule differ");
        return 2;
    }
    for l in explore::fmt_log(&r1) {
        println!("{}", l);
    }
    let findings = (scn.check)(&r1);
    if findings.is_empty() {
        println!("replay: oracle reports no violation for this schedule");
        0
    } else {
        for f in &findings {
            println!("replay: {} — {}", f.sig, f.msg);
        }
        let known = evidence::load_known(prop);
        if findings.iter().all(|f| known.iter().any(|k| k.matches(&f.sig))) {
            println!("replay: all findings are listed known findings");
            0
        } else {
            println!("VIOLATION property={} replay={}", prop, path);
            1
        }
    }
}
