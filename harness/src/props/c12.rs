//! C12 — middleware verdicts mean what they say.  The verdict assignment is a data choice of the
//! scenario (`choose`), so the same DFS that enumerates schedules enumerates every assignment.

use crate::common::*;
use crate::oracle::*;
use crate::Tier;
use rs_store::Middleware;
use std::sync::Arc;
use verif_rt::core::ExecResult;
use verif_rt::explore::{Finding, Scenario};
use verif_rt::{choose, Ev};

const A1: u32 = 100;
const A2: u32 = 101;

fn body(m: u32, two_actions: bool) {
    body_x(m, two_actions, false, 1)
}

/// `stop_early`: the first action's reducer is parked on a gate, the second action is queued, and
/// stop() is called before the gate is opened — it can only return through its timeout; the
/// verdicts must be honoured for the backlog all the same
/// `subs`: 1 one subscriber; 0 nobody ever subscribes (the store is observed through its
/// middlewares only); 2 the only subscriber has left again before the first action
fn body_x(m: u32, two_actions: bool, stop_early: bool, subs: u32) {
    // data choices, recorded for the oracle: code = action_index * 100 + mw * 3 + hook
    let mut tables: Vec<Vec<[Verdict; 3]>> = vec![]; // [action][mw][hook]
    let nact = if two_actions { 2 } else { 1 };
    for ai in 0..nact {
        let mut t = vec![];
        for mw in 0..m {
            let mut row = [Verdict::Continue; 3];
            for (hook, slot) in row.iter_mut().enumerate() {
                // second action: reduced alphabet — only middleware 0 varies
                let v = if ai == 1 && mw > 0 { 0 } else { choose(4) };
                *slot = Verdict::ALL[v];
                note("verdict", (ai * 100) as i64 + (mw * 3) as i64 + hook as i64, v as i64);
            }
            t.push(row);
        }
        tables.push(t);
    }
    let keep = choose(2);
    note("keep", keep as i64, 0);
    let remover = choose(m as usize + 1); // m = nobody removes
    note("remover", remover as i64, 0);
    let mut cfg = StoreCfg::new(2, 4, Pol::Block);
    let gate = verif_rt::Gate::new(0);
    if stop_early {
        cfg.knobs = Knobs { reducer_gate: Some(gate), reducer_gate_only: Some(A1), ..Default::default() };
    }
    for mw in 0..m {
        let tb = tables.clone();
        cfg.mws.push(Arc::new(ScriptMw {
            idx: mw,
            verdicts: Arc::new(move |hook, aid| tb[(aid - A1) as usize][mw as usize][hook]),
            remove_effect: if remover == mw as usize { Some(0) } else { None },
            dispatch_in_hook: None,
            read_from: None,
        }) as Arc<dyn Middleware<St, Act> + Send + Sync>);
    }
    let store = build_store(cfg);
    let _sub = if subs > 0 { Some(add_subscriber(&store, Arc::new(ScriptSub::new(1)), 1)) } else { None };
    if subs == 2 {
        unsubscribe(&**_sub.as_ref().unwrap(), 1);
    }
    let mask = if keep == 1 { 0b11 } else { 0 };
    dispatch(&store, Act::new(A1).keep(mask).eff(0, EFF_TASK).eff(1, EFF_TASK));
    if two_actions {
        dispatch(&store, Act::new(A2).eff(0, EFF_TASK));
    }
    stop(&store, 0);
    if stop_early {
        gate.open(1);
        verif_rt::quiesce();
    }
    get_state(&store, 99);
}

fn verdict(r: &ExecResult, ai: usize, mw: u32, hook: usize) -> Verdict {
    let code = (ai * 100) as i64 + (mw * 3) as i64 + hook as i64;
    let v = notes(r, "verdict").find(|n| n.1 == code).map(|n| n.2).unwrap_or(0);
    Verdict::ALL[v as usize]
}

const HOOK_KIND: [&str; 3] = ["mw_before_reduce", "mw_before_effect", "mw_before_dispatch"];

pub fn check(r: &ExecResult, m: u32, two_actions: bool) -> Vec<Finding> {
    check_x(r, m, two_actions, 1)
}

pub fn check_x(r: &ExecResult, m: u32, two_actions: bool, subs: u32) -> Vec<Finding> {
    let n_subs = if subs == 1 { 1 } else { 0 };
    let mut f = sanity(r);
    let keep = notes(r, "keep").next().map(|n| n.1).unwrap_or(0) == 1;
    let remover = notes(r, "remover").next().map(|n| n.1 as u32).unwrap_or(m);
    let mut pre: Vec<u32> = vec![];
    let nact = if two_actions { 2 } else { 1 };
    // on_error is per middleware: compare totals over the whole run
    let mut expect_errors = vec![0u32; m as usize];
    for ai in 0..nact {
        let aid = A1 + ai as u32;
        let keep_a = keep && ai == 0;
        let n_eff = if ai == 0 { 2 } else { 1 };
        // hooks called in a phase: up to and including the first Break
        let called = |hook: usize| -> Vec<u32> {
            let mut v = vec![];
            for mw in 0..m {
                v.push(mw);
                if verdict(r, ai, mw, hook) == Verdict::Break {
                    break;
                }
            }
            v
        };
        let got_hooks = |hook: usize| -> Vec<(u32, Vec<u32>)> {
            cbs_of(r, HOOK_KIND[hook]).filter(|c| c.act == aid).map(|c| (c.comp, c.st.clone())).collect()
        };
        // ---- before_reduce: state before the action
        let c0 = called(HOOK_REDUCE);
        let want0: Vec<(u32, Vec<u32>)> = c0.iter().map(|mw| (*mw, pre.clone())).collect();
        if got_hooks(HOOK_REDUCE) != want0 {
            f.push(fnd("mw-before-reduce-calls", format!("action {}: before_reduce calls {:?}, expected middlewares {:?} with the state before the action", aid, got_hooks(HOOK_REDUCE), c0)));
        }
        for mw in &c0 {
            if verdict(r, ai, *mw, HOOK_REDUCE) == Verdict::Err {
                expect_errors[*mw as usize] += 1;
            }
        }
        let vetoed = c0.iter().any(|mw| verdict(r, ai, *mw, HOOK_REDUCE) == Verdict::Done);
        let reduces: Vec<CbEv> = cbs_of(r, "reduce").filter(|c| c.act == aid).collect();
        if vetoed {
            if !reduces.is_empty() {
                f.push(fnd("mw-done-but-reduced", format!("action {}: before_reduce answered DoneAction but {} reducer call(s) happened", aid, reduces.len())));
            }
            // later phases of a vetoed action are unspecified; count the errors they produce so
            // that the on_error total stays comparable
            for hook in [HOOK_EFFECT, HOOK_DISPATCH] {
                for c in cbs_of(r, HOOK_KIND[hook]).filter(|c| c.act == aid) {
                    if verdict(r, ai, c.comp, hook) == Verdict::Err {
                        expect_errors[c.comp as usize] += 1;
                    }
                }
            }
            continue; // state unchanged: checked through `pre` of the next action / final state
        }
        let mut post = pre.clone();
        post.push(mark(0, aid));
        post.push(mark(1, aid));
        if reduces.len() != 2 || reduces[0].st != &pre || reduces[1].out != &post {
            f.push(fnd("mw-continue-changed-reduce", format!("action {}: not vetoed, yet the reducer chain did not run once from the previous state", aid)));
        }
        // ---- before_effect: state after the action
        let c1 = called(HOOK_EFFECT);
        let want1: Vec<(u32, Vec<u32>)> = c1.iter().map(|mw| (*mw, post.clone())).collect();
        if got_hooks(HOOK_EFFECT) != want1 {
            f.push(fnd("mw-before-effect-calls", format!("action {}: before_effect calls {:?}, expected middlewares {:?} with the state after the action", aid, got_hooks(HOOK_EFFECT), c1)));
        }
        for mw in &c1 {
            if verdict(r, ai, *mw, HOOK_EFFECT) == Verdict::Err {
                expect_errors[*mw as usize] += 1;
            }
        }
        {
            // effects: slot 0 and slot 1 (first action), slot 0 (second); the remover, if it was
            // called, removed position 0
            let removed0 = c1.contains(&remover);
            let mut want: Vec<u32> = (0..n_eff).collect();
            if removed0 {
                want.remove(0);
            }
            let mut got: Vec<u32> = cbs_of(r, "effect").filter(|c| c.act == aid).map(|c| c.comp).collect();
            got.sort();
            if got != want {
                f.push(fnd("mw-effects", format!("action {}: effects run {:?}, expected {:?} (middleware {} removes the first one)", aid, got, want, if removed0 { remover as i64 } else { -1 })));
            }
        }
        // ---- before_dispatch
        let notified: Vec<CbEv> = cbs_of(r, "notify").filter(|c| c.act == aid).collect();
        if keep_a {
            if !notified.is_empty() {
                f.push(fnd("mw-keep-notified", format!("action {}: reducers answered Keep but the subscriber was notified", aid)));
            }
            for c in cbs_of(r, HOOK_KIND[HOOK_DISPATCH]).filter(|c| c.act == aid) {
                if verdict(r, ai, c.comp, HOOK_DISPATCH) == Verdict::Err {
                    expect_errors[c.comp as usize] += 1;
                }
            }
        } else {
            let c2 = called(HOOK_DISPATCH);
            let want2: Vec<(u32, Vec<u32>)> = c2.iter().map(|mw| (*mw, post.clone())).collect();
            if got_hooks(HOOK_DISPATCH) != want2 {
                f.push(fnd("mw-before-dispatch-calls", format!("action {}: before_dispatch calls {:?}, expected middlewares {:?} with the state after the action", aid, got_hooks(HOOK_DISPATCH), c2)));
            }
            for mw in &c2 {
                if verdict(r, ai, *mw, HOOK_DISPATCH) == Verdict::Err {
                    expect_errors[*mw as usize] += 1;
                }
            }
            let suppressed = c2.iter().any(|mw| verdict(r, ai, *mw, HOOK_DISPATCH) == Verdict::Done);
            if suppressed && !notified.is_empty() {
                f.push(fnd("mw-done-but-notified", format!("action {}: before_dispatch answered DoneAction but the subscriber was notified", aid)));
            }
            if !suppressed && (notified.len() != n_subs || notified.iter().any(|n| n.st != &post)) {
                f.push(fnd("mw-notify", format!("action {}: expected exactly {} notification(s) with the new state, got {}", aid, n_subs, notified.len())));
            }
        }
        pre = post;
    }
    for mw in 0..m {
        let got = cbs_of(r, "mw_on_error").filter(|c| c.comp == mw).count() as u32;
        if got != expect_errors[mw as usize] {
            f.push(fnd("mw-on-error", format!("middleware {} returned Err {} time(s) but on_error was called {} time(s)", mw, expect_errors[mw as usize], got)));
        }
    }
    if let Some(g) = rets(r, "get_state").last() {
        if *g.st != pre && r.timeouts == 0 {
            f.push(fnd("mw-final-state", format!("final state {} but the verdicts imply {}", fmt_st(g.st), fmt_st(&pre))));
        }
    }
    let _ = Ev::Exit;
    f.dedup_by(|a, b| a.sig == b.sig);
    f
}

pub fn scenarios(tier: Tier) -> Vec<Scenario> {
    let mut v = vec![];
    let mut add = |m: u32, two: bool, bound: u32| {
        v.push(Scenario {
            name: format!("C12/m{}{}", m, if two { "x2" } else { "" }),
            params: format!("middlewares={} actions={} (all verdict assignments by data choice)", m, if two { 2 } else { 1 }),
            opts: verif_rt::RunOpts { elide: vec![ELIDE_RED, ELIDE_MW], ..Default::default() },
            bound,
            body: Arc::new(move || body(m, two)),
            check: Arc::new(move |r| check(r, m, two)),
        });
    };
    match tier {
        Tier::Quick => {
            add(1, false, 2);
            add(2, false, 1);
            add(1, true, 1);
        }
        Tier::Thorough => {
            add(1, false, 3);
            add(2, false, 2);
            add(3, false, 1);
            add(1, true, 2);
            add(2, true, 1);
        }
    }
    // the hooks do not depend on anybody being subscribed
    for subs in [0u32, 2] {
        for (m, two, b) in if tier == Tier::Quick { vec![(1u32, false, 1u32), (1, true, 0)] } else { vec![(1, false, 3), (2, false, 1), (1, true, 1)] } {
            v.push(Scenario {
                name: format!("C12/{}/m{}{}", if subs == 0 { "nosub" } else { "sub-left" }, m, if two { "x2" } else { "" }),
                params: format!("middlewares={} actions={} subscribers: {}", m, if two { 2 } else { 1 }, if subs == 0 { "none" } else { "one, unsubscribed before the first action" }),
                opts: verif_rt::RunOpts { elide: vec![ELIDE_RED, ELIDE_MW], ..Default::default() },
                bound: b,
                body: Arc::new(move || body_x(m, two, false, subs)),
                check: Arc::new(move |r| check_x(r, m, two, subs)),
            });
        }
    }
    // stop() returning through its timeout must not change what the verdicts mean for the backlog
    for (m, b) in if tier == Tier::Quick { vec![(1u32, 0u32)] } else { vec![(1, 1), (2, 0)] } {
        v.push(Scenario {
            name: format!("C12/stop-timeout/m{}", m),
            params: format!("middlewares={} actions=2, reducer parked, stop() times out, then the backlog is processed", m),
            opts: verif_rt::RunOpts { elide: vec![ELIDE_RED, ELIDE_MW], ..Default::default() },
            bound: b,
            body: Arc::new(move || body_x(m, true, true, 1)),
            check: Arc::new(move |r| {
                let mut f = check(r, m, true);
                // the timeout is the scenario's doing (the harness parks the reducer), not a finding;
                // a stop() that gave up has taken the pool away, so whether the backlog's effects
                // still run is not compared here (hook calls, reducers, notification, state are)
                f.retain(|x| x.sig != "timeout" && x.sig != "mw-effects");
                f
            }),
        });
    }
    v
}
