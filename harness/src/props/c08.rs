//! C08 — get_state is a consistent, monotonic view published before notification.

use super::{producers, scn};
use crate::common::*;
use crate::oracle::*;
use crate::prog::{Op, Program, StoreSpec};
use crate::Tier;
use verif_rt::core::ExecResult;
use verif_rt::explore::{Finding, Scenario};
use verif_rt::Ev;

pub fn check(r: &ExecResult) -> Vec<Finding> {
    let mut f = sanity(r);
    let p = pipe(r);
    // S_0 = initial, S_i = state after the i-th reduced action
    let mut states: Vec<Vec<u32>> = vec![vec![]];
    for a in &p.order {
        states.push(p.after[a].clone());
    }
    let index = |s: &Vec<u32>| states.iter().position(|x| x == s);
    // all reads: (task, call idx, ret idx, value)
    let mut reads: Vec<(u32, usize, usize, usize)> = vec![];
    for g in rets(r, "get_state") {
        let call = r.log[..g.i]
            .iter()
            .rposition(|x| x.task == g.task && matches!(&x.ev, Ev::Call { op: "get_state", .. }))
            .unwrap_or(g.i);
        match index(g.st) {
            Some(ix) => reads.push((g.task, call, g.i, ix)),
            None => f.push(fnd("state-torn", format!("get_state() returned {} which is not the state after any action", fmt_st(g.st)))),
        }
    }
    for c in cbs_of(r, "read_in_notify") {
        match index(c.st) {
            Some(ix) => {
                reads.push((c.task, c.i, c.i, ix));
                if let Some(ai) = p.order.iter().position(|a| *a == c.act) {
                    if ix < ai + 1 {
                        f.push(fnd(
                            "state-not-published-before-notify",
                            format!("while subscriber {} was told about action {}, get_state() still returned the state of an older action", c.comp, c.act),
                        ));
                    }
                }
            }
            None => f.push(fnd("state-torn", format!("get_state() inside on_notify returned {} which is not the state after any action", fmt_st(c.st)))),
        }
    }
    for kind in ["read_in_before_reduce", "read_in_before_dispatch"] {
        for c in cbs_of(r, kind) {
            match index(c.st) {
                Some(ix) => {
                    reads.push((c.task, c.i, c.i, ix));
                    if let Some(ai) = p.order.iter().position(|a| *a == c.act) {
                        // before_reduce sees at least the previous action's state, before_dispatch
                        // (like a subscriber) at least this action's
                        let need = if kind == "read_in_before_reduce" { ai } else { ai + 1 };
                        if ix < need {
                            f.push(fnd("state-not-published-before-notify", format!("inside {} of action {}, get_state() returned the state of an older action than it must", kind, c.act)));
                        }
                    }
                }
                None => f.push(fnd("state-torn", format!("get_state() inside a middleware hook returned {} which is not the state after any action", fmt_st(c.st)))),
            }
        }
    }
    // a read observes an action only after it has been reduced (never invented / early)
    for rd in &reads {
        if rd.3 > 0 {
            let a = p.order[rd.3 - 1];
            if p.last_reduce_idx[&a] > rd.2 {
                f.push(fnd("state-from-the-future", format!("a read returned the state of action {} before its reducers had run", a)));
            }
        }
    }
    for x in &reads {
        for y in &reads {
            if x.2 < y.1 && y.3 < x.3 {
                f.push(fnd("state-went-back", format!("a read that started after another had finished returned an older state ({} < {})", y.3, x.3)));
            }
        }
    }
    f.dedup_by(|a, b| a.sig == b.sig);
    f
}

pub fn scenarios(tier: Tier) -> Vec<Scenario> {
    let mut v = vec![];
    let mut add = |readers: u32, nreads: u32, np: u32, k: u32, subs: u8, bound: u32| {
        let mut spec = StoreSpec::new(2, 2, Pol::Block);
        if subs & 4 != 0 {
            spec.mws = 1;
            spec.mw_reads = true;
        }
        // odd actions answer Keep (their state is still stored and read back)
        let mut prog = producers(Program::new(spec), np, k, move |_, id| Op::Dispatch(Act::new(id).keep(if subs & 8 != 0 && id % 2 == 0 { 0b11 } else { 0 })));
        for rd in 0..readers {
            prog = prog.thread(&format!("r{}", rd), (0..nreads).map(|i| Op::GetState(i as i64)).collect());
        }
        let mut main = vec![];
        if subs & 1 != 0 {
            main.push(Op::AddSub { id: 1, gated: false, reads: true });
        }
        if subs & 2 != 0 {
            main.push(Op::Subscribed { id: 2, cap: 1, pol: Pol::Block, gated: false, reads: true });
        }
        main.extend([Op::SpawnAll, Op::JoinAll, Op::Stop, Op::GetState(99)]);
        prog = prog.main(main);
        let o = if subs & 4 != 0 { verif_rt::RunOpts { elide: vec![ELIDE_RED, ELIDE_MW], ..Default::default() } } else { opts_elide() };
        v.push(scn(format!("C08/R{}x{}P{}k{}subs{}", readers, nreads, np, k, subs), prog, bound, o, |r, _| check(r)));
    };
    match tier {
        Tier::Quick => {
            add(1, 2, 1, 2, 0, 2);
            add(1, 2, 1, 2, 1, 2);
            add(0, 0, 1, 2, 3, 2);
            add(2, 2, 1, 1, 0, 2);
            add(1, 2, 1, 2, 4, 2);
            add(0, 0, 2, 1, 5, 2);
            add(1, 2, 1, 3, 8, 2);
            add(1, 2, 1, 2, 9, 2);
        }
        Tier::Thorough => {
            for subs in 0..=3u8 {
                let chan = subs & 2 != 0;
                add(1, 3, 1, 2, subs, if chan { 2 } else { 3 });
                add(1, 2, 2, 1, subs, if chan { 2 } else { 3 });
                add(2, 2, 1, 2, subs, if chan { 1 } else { 2 });
                add(1, 2, 2, 2, subs, if chan { 1 } else { 2 });
                add(1, 2, 1, 1, subs, 3);
            }
            add(2, 3, 1, 1, 1, 3);
            add(1, 2, 1, 2, 4, 3);
            add(1, 2, 2, 1, 5, 2);
            add(0, 0, 1, 2, 7, 2);
            add(1, 3, 1, 3, 8, 3);
            add(1, 2, 2, 2, 9, 2);
            add(2, 2, 1, 3, 8, 2);
        }
    }
    // a subscriber callback that panics (after the new state has been published and read):
    // whatever the store does about it, reads never go back.  Only the read oracle applies here
    // (what happens to later actions after such a panic is not C08's business).
    for (k, panic_at, bound) in if tier == Tier::Quick { vec![(3u32, 101u32, 2u32)] } else { vec![(3, 101, 3), (3, 100, 3), (2, 101, 4)] } {
        let mut prog = producers(Program::new(StoreSpec::new(1, 4, Pol::Block)), 1, k, |_, id| Op::Dispatch(Act::new(id)));
        prog = prog.thread("r0", (0..3).map(|i| Op::GetState(i as i64)).collect());
        prog = prog.main(vec![
            Op::AddSub { id: 1, gated: false, reads: true },
            Op::AddPanicSub { id: 7, on: panic_at },
            Op::SpawnAll,
            Op::JoinAll,
            Op::Quiesce,
            Op::GetState(98),
            Op::Stop,
            Op::GetState(99),
        ]);
        v.push(scn(format!("C08/panic-sub/k{}at{}", k, panic_at), prog, bound, opts_elide(), |r, _| {
            let mut f = check(r);
            f.retain(|x| !x.sig.starts_with("stuck") && x.sig != "timeout");
            f
        }));
    }
    v
}
