//! C03 — direct subscribers see every notifying action once, in order, with its state.

use super::{producers, scn};
use crate::common::*;
use crate::oracle::*;
use crate::prog::{Op, Program, StoreSpec};
use crate::Tier;
use verif_rt::core::ExecResult;
use verif_rt::explore::{Finding, Scenario};

pub fn check(r: &ExecResult, subs: &[u32]) -> Vec<Finding> {
    let mut f = sanity(r);
    let p = pipe(r);
    // the statement leaves mixed Dispatch/Keep chains unspecified: drop those actions from both sides
    let unspecified: Vec<u32> = p.order.iter().copied().filter(|a| !p.uniform[a]).collect();
    let expected: Vec<(u32, Vec<u32>)> =
        p.expected_stream().into_iter().filter(|(a, _)| !unspecified.contains(a)).collect();
    for &s in subs {
        let got: Vec<(u32, Vec<u32>)> = strip(&stream(r, "notify", s))
            .into_iter()
            .filter(|(a, _)| !unspecified.contains(a))
            .collect();
        if got != expected {
            // classify for a helpful message
            let sig = if got.iter().any(|(a, _)| p.notifies.get(a) == Some(&false)) {
                "sub-notified-for-keep"
            } else if got.len() > expected.len() {
                "sub-duplicate-or-extra"
            } else if got.len() < expected.len() {
                "sub-missed-notification"
            } else if got.iter().map(|x| x.0).collect::<Vec<_>>() != expected.iter().map(|x| x.0).collect::<Vec<_>>() {
                "sub-order"
            } else {
                "sub-wrong-state"
            };
            f.push(fnd(
                sig,
                format!("subscriber {} saw [{}] but the notifying actions were [{}]", s, fmt_stream(&got), fmt_stream(&expected)),
            ));
        }
    }
    // within one action: registration order (subs is in registration order)
    for a in &p.order {
        let mut last = 0usize;
        for &s in subs {
            if let Some(c) = cbs_of(r, "notify").find(|c| c.comp == s && c.act == *a) {
                if c.i < last {
                    f.push(fnd("sub-registration-order", format!("for action {} subscriber {} was called before an earlier-registered one", a, s)));
                }
                last = c.i;
            }
        }
    }
    f
}

pub fn scenarios(tier: Tier) -> Vec<Scenario> {
    let mut v = vec![];
    let mut add = |nsubs: u32, np: u32, k: u32, reducers: u32, keep_of: &dyn Fn(u32, u32) -> bool, pat: &str, cap: usize, bound: u32| {
        let with_eff = cap == 16;
        let all = ((1u32 << reducers) - 1) as u8;
        let mut prog = Program::new(StoreSpec::new(reducers, cap, Pol::Block));
        prog = producers(prog, np, k, |p, id| {
            let q = id % 100;
            Op::Dispatch(Act::new(id).keep(if keep_of(p, q) { all } else { 0 }).eff(0, if with_eff && q == 0 { EFF_TASK } else { EFF_NONE }))
        });
        let mut main = vec![];
        let transient = pat == "oddK" && cap == 1;
        if transient {
            // leaves during the run: the whole-run subscribers must not notice
            main.push(Op::AddSub { id: 9, gated: false, reads: false });
            prog = prog.thread("leaver", vec![Op::Unsub(9)]);
        }
        let subs: Vec<u32> = (1..=nsubs).collect();
        for &s in &subs {
            main.push(Op::AddSub { id: s, gated: false, reads: false });
        }
        main.extend([Op::SpawnAll, Op::JoinAll, Op::Stop]);
        prog = prog.main(main);
        let name = format!("C03/S{}P{}k{}r{}{}cap{}{}", nsubs, np, k, reducers, pat, cap, if with_eff { "eff" } else { "" });
        v.push(scn(name, prog, bound, opts_elide(), move |r, _| check(r, &subs)));
    };
    let pats: Vec<(&str, Box<dyn Fn(u32, u32) -> bool>)> = vec![
        ("allD", Box::new(|_, _| false)),
        ("allK", Box::new(|_, _| true)),
        ("oddK", Box::new(|_, q| q % 2 == 1)),
        ("p0K", Box::new(|p, _| p == 0)),
        ("evenK", Box::new(|_, q| q % 2 == 0)),
    ];
    match tier {
        Tier::Quick => {
            for (pn, pf) in &pats {
                add(2, 1, 2, 1, pf.as_ref(), pn, 1, 2);
                add(2, 2, 1, 2, pf.as_ref(), pn, 16, 2);
            }
            add(3, 2, 2, 1, pats[2].1.as_ref(), "oddK", 1, 2);
            add(1, 2, 2, 2, pats[3].1.as_ref(), "p0K", 16, 2);
        }
        Tier::Thorough => {
            for (pn, pf) in &pats {
                for nsubs in 1..=3 {
                    for &(np, k) in &[(1u32, 2u32), (2, 1), (2, 2), (1, 3)] {
                        for reducers in 1..=2 {
                            // cap 16 variants carry Task effects (more tasks): keep them small
                            for &cap in &[1usize, 16] {
                                let big = (np == 2 && k == 2) || k == 3 || nsubs == 3;
                                if cap == 16 && (big || reducers == 2) {
                                    continue;
                                }
                                add(nsubs, np, k, reducers, pf.as_ref(), pn, cap, if big { 2 } else { 3 });
                            }
                        }
                    }
                }
            }
            add(2, 3, 1, 1, pats[2].1.as_ref(), "oddK", 1, 2);
            add(2, 2, 2, 1, pats[3].1.as_ref(), "p0K", 16, 2);
        }
    }
    // a late-comer creates (and drops) a state iterator while stop() is under way with a backlog:
    // the subscribers registered for the whole run must not notice
    for (np, k, bound) in if tier == Tier::Quick { vec![(1u32, 2u32, 2u32)] } else { vec![(1, 2, 3), (2, 1, 3), (2, 2, 2)] } {
        let mut prog = producers(Program::new(StoreSpec::new(1, 2, Pol::Block)), np, k, |_, id| Op::Dispatch(Act::new(id)));
        prog = prog.thread("late-iter", vec![Op::IterOpen(40), Op::IterClose(40)]);
        prog = prog.main(vec![Op::AddSub { id: 1, gated: false, reads: false }, Op::AddSub { id: 2, gated: false, reads: false }, Op::SpawnAll, Op::JoinThese(vec!["p0", "p1"]), Op::Stop, Op::JoinAll]);
        let subs = vec![1u32, 2];
        v.push(scn(format!("C03/late-iter/P{}k{}", np, k), prog, bound, opts_elide(), move |r, _| check(r, &subs)));
    }
    v
}
