//! C16 — selector subscribers fire exactly on changes of the selected value.

use crate::common::*;
use crate::oracle::*;
use crate::Tier;
use rs_store::{Selector, SelectorSubscriber, Subscriber};
use std::sync::Arc;
use verif_rt::core::ExecResult;
use verif_rt::explore::{Finding, Scenario};
use verif_rt::{choose, log, Ev};

struct Sel;
impl Selector<St, u32> for Sel {
    fn select(&self, state: &St) -> u32 {
        state.0.last().map(|m| mark_action(*m) % 3).unwrap_or(0)
    }
}

fn on_change(v: u32, a: Act) {
    // a user callback is an observable event of its own (see ScriptSub::on_notify)
    if verif_rt::core::active() {
        verif_rt::thread::yield_now();
    }
    log(Ev::Cb { kind: "sel_change", comp: 1, act: a.id, st: vec![], out: vec![], x: v as i64 });
}

/// action id whose selected value is `v`: position-unique, id % 3 == v
fn aid(pos: usize, v: usize) -> u32 {
    (300 + 3 * pos + v) as u32
}

/// (a) the subscriber object fed directly, every sequence of `len` values
fn body_direct(len: usize, seq: Option<Vec<usize>>) {
    let sub = SelectorSubscriber::new(Sel, on_change);
    let mut st = St::default();
    for pos in 0..len {
        let v = match &seq {
            Some(s) => s[pos],
            None => choose(3),
        };
        let a = Act::new(aid(pos, v));
        st.0.push(mark(0, a.id));
        log(Ev::Note { what: "fed", a: a.id as i64, b: v as i64 });
        sub.on_notify(&st, &a);
    }
}

/// (b) through a running store, Keep actions interleaved
fn body_store(len: usize, seq: Option<Vec<(usize, usize)>>) {
    let store = build_store(StoreCfg::new(1, 16, Pol::Block));
    log(Ev::Call { op: "add_subscriber", a: 1 });
    let _s = store.subscribe_with_selector(Sel, on_change);
    log(Ev::Ret { op: "add_subscriber", a: 1, ok: true, st: vec![] });
    for pos in 0..len {
        let (v, keep) = match &seq {
            Some(s) => s[pos],
            None => (choose(3), choose(2)),
        };
        let a = Act::new(aid(pos, v)).keep(keep as u8);
        if keep == 0 {
            log(Ev::Note { what: "fed", a: a.id as i64, b: v as i64 });
        }
        dispatch(&store, a);
    }
    stop(&store, 0);
}

/// (c) a selector subscription that is unsubscribed while actions selecting the SAME value are in
/// flight: whatever is delivered (a late delivery after unsubscribe() is KF-1's business, not
/// C16's) must still be free of consecutive duplicates and come from the notification stream
fn body_unsub(values: Vec<usize>) {
    let store = build_store(StoreCfg::new(1, 16, Pol::Block));
    let _d = add_subscriber(&store, Arc::new(ScriptSub::new(9)), 9);
    log(Ev::Call { op: "add_subscriber", a: 1 });
    let sub = store.subscribe_with_selector(Sel, on_change);
    log(Ev::Ret { op: "add_subscriber", a: 1, ok: true, st: vec![] });
    let s2 = store.clone();
    let vals = values.clone();
    let h = verif_rt::thread::spawn_client("p0", move || {
        for (pos, v) in vals.iter().enumerate() {
            dispatch(&s2, Act::new(aid(pos, *v)));
        }
    });
    let h2 = verif_rt::thread::spawn_client("unsub", move || {
        unsubscribe(&*sub, 1);
    });
    let _ = h.join();
    let _ = h2.join();
    stop(&store, 0);
}

/// (d) one SelectorSubscriber object registered in two running stores: notified from two reducer
/// contexts, it must still never deliver the value it delivered last
fn body_two_stores(v1: Vec<usize>, v2: Vec<usize>) {
    let s1 = build_store(StoreCfg::new(1, 4, Pol::Block));
    let s2 = build_store(StoreCfg::new(1, 4, Pol::Block));
    let sub: Arc<dyn Subscriber<St, Act> + Send + Sync> = Arc::new(SelectorSubscriber::new(Sel, on_change));
    let _a = s1.add_subscriber(sub.clone());
    let _b = s2.add_subscriber(sub);
    let (c1, c2) = (s1.clone(), s2.clone());
    let h1 = verif_rt::thread::spawn_client("p1", move || {
        for (pos, v) in v1.iter().enumerate() {
            dispatch(&c1, Act::new(aid(pos, *v)));
        }
    });
    let h2 = verif_rt::thread::spawn_client("p2", move || {
        for (pos, v) in v2.iter().enumerate() {
            dispatch(&c2, Act::new(aid(10 + pos, *v)));
        }
    });
    let _ = h1.join();
    let _ = h2.join();
    stop(&s1, 0);
    stop(&s2, 10);
}

/// (e) a callback that panics on one delivery (a witness subscriber registered before it records
/// the notification stream): whatever the store does about the panic, the deliveries stay the
/// de-duplicated selected values of the notifications that did happen
fn body_panic(values: Vec<usize>, panic_pos: usize) {
    let store = build_store(StoreCfg::new(1, 16, Pol::Block));
    let _d = add_subscriber(&store, Arc::new(ScriptSub::new(9)), 9);
    let panic_id = aid(panic_pos, values[panic_pos]);
    log(Ev::Call { op: "add_subscriber", a: 1 });
    let _s = store.subscribe_with_selector(Sel, move |v: u32, a: Act| {
        let id = a.id;
        on_change(v, a);
        if id == panic_id {
            panic!("scripted selector callback panic");
        }
    });
    log(Ev::Ret { op: "add_subscriber", a: 1, ok: true, st: vec![] });
    for (pos, v) in values.iter().enumerate() {
        dispatch(&store, Act::new(aid(pos, *v)));
        verif_rt::quiesce();
    }
    stop(&store, 0);
}

pub fn check_panic(r: &ExecResult) -> Vec<Finding> {
    let mut f: Vec<Finding> = sanity(r).into_iter().filter(|x| x.sig == "process-wide-state" || x.sig == "task-panic").collect();
    let mut want: Vec<(u32, i64)> = vec![];
    let mut last: Option<i64> = None;
    for c in cbs_of(r, "notify").filter(|c| c.comp == 9) {
        let v = (c.act % 3) as i64;
        if last != Some(v) {
            want.push((c.act, v));
            last = Some(v);
        }
    }
    let got: Vec<(u32, i64)> = cbs_of(r, "sel_change").map(|c| (c.act, c.x)).collect();
    if got != want {
        let sig = if got.len() > want.len() { "selector-fired-without-change" } else if got.len() < want.len() { "selector-missed-change" } else { "selector-wrong-value-or-action" };
        f.push(fnd(sig, format!("after a panicking callback: selector callbacks (action, value) {:?}, but the notifications seen by the witness subscriber select {:?}", got, want)));
    }
    f
}

pub fn check_two_stores(r: &ExecResult) -> Vec<Finding> {
    let mut f = sanity(r);
    let got: Vec<(u32, i64)> = cbs_of(r, "sel_change").map(|c| (c.act, c.x)).collect();
    for w in got.windows(2) {
        if w[0].1 == w[1].1 {
            f.push(fnd("selector-fired-without-change", format!("selector callback delivered value {} twice in a row (actions {} and {}): {:?}", w[0].1, w[0].0, w[1].0, got)));
            break;
        }
    }
    for (a, v) in &got {
        if (*a % 3) as i64 != *v {
            f.push(fnd("selector-wrong-value-or-action", format!("delivered value {} with action {} whose state selects {}", v, a, a % 3)));
        }
    }
    if got.is_empty() && cbs_of(r, "reduce").next().is_some() {
        f.push(fnd("selector-missed-change", "nothing was delivered although actions were notified".into()));
    }
    f
}

pub fn check_unsub(r: &ExecResult) -> Vec<Finding> {
    let mut f = sanity(r);
    let got: Vec<(u32, i64)> = cbs_of(r, "sel_change").map(|c| (c.act, c.x)).collect();
    for w in got.windows(2) {
        if w[0].1 == w[1].1 {
            f.push(fnd("selector-fired-without-change", format!("selector callback delivered value {} twice in a row (actions {} and {}): {:?}", w[0].1, w[0].0, w[1].0, got)));
            break;
        }
    }
    // every delivery is caused by a notifying action with that value, in stream order
    let p = pipe(r);
    let stream: Vec<(u32, i64)> = p.order.iter().map(|a| (*a, (*a % 3) as i64)).collect();
    if !is_subsequence(&got, &stream) {
        f.push(fnd("selector-wrong-value-or-action", format!("selector deliveries {:?} are not drawn in order from the notification stream {:?}", got, stream)));
    }
    // the first notification it receives is always delivered
    if let Some(first) = stream.first() {
        let unsub_call = calls(r, "unsubscribe").map(|c| c.i).next().unwrap_or(usize::MAX);
        let first_reduced = p.last_reduce_idx[&first.0];
        if got.is_empty() && unsub_call > r.log.len() && first_reduced < unsub_call {
            f.push(fnd("selector-missed-change", "nothing was delivered although the subscription stayed".into()));
        }
    }
    f
}

pub fn check(r: &ExecResult) -> Vec<Finding> {
    let mut f = sanity(r);
    // reference: run-length de-duplication of the notification stream's selected values
    let mut want: Vec<(u32, i64)> = vec![];
    let mut last: Option<i64> = None;
    for (_, a, v) in notes(r, "fed") {
        if last != Some(v) {
            want.push((a as u32, v));
            last = Some(v);
        }
    }
    let got: Vec<(u32, i64)> = cbs_of(r, "sel_change").map(|c| (c.act, c.x)).collect();
    if got != want {
        let sig = if got.len() > want.len() {
            "selector-fired-without-change"
        } else if got.len() < want.len() {
            "selector-missed-change"
        } else {
            "selector-wrong-value-or-action"
        };
        f.push(fnd(sig, format!("selector callbacks (action, value) {:?}, expected {:?}", got, want)));
    }
    f
}

fn lcg(seed: &mut u64) -> u64 {
    *seed = seed.wrapping_mul(6364136223846793005).wrapping_add(1442695040888963407);
    *seed >> 33
}

pub fn scenarios(tier: Tier, seed: i64) -> Vec<Scenario> {
    let mut v = vec![];
    let (dmax, smax) = if tier == Tier::Quick { (8usize, 4usize) } else { (12, 6) };
    for len in 1..=dmax {
        v.push(Scenario {
            name: format!("C16/direct/len{}", len),
            params: "all value sequences over {0,1,2} fed to SelectorSubscriber::on_notify".into(),
            opts: verif_rt::RunOpts::default(),
            bound: 0,
            body: Arc::new(move || body_direct(len, None)),
            check: Arc::new(check),
        });
    }
    for len in 1..=smax {
        v.push(Scenario {
            name: format!("C16/store/len{}", len),
            params: "all (value, Dispatch|Keep) sequences through subscribe_with_selector on a running store".into(),
            opts: opts_elide(),
            bound: if len <= 3 { 1 } else { 0 },
            body: Arc::new(move || body_store(len, None)),
            check: Arc::new(check),
        });
    }
    let unsub_seqs: Vec<Vec<usize>> = if tier == Tier::Quick { vec![vec![1, 1], vec![1, 2, 2]] } else { vec![vec![1, 1], vec![1, 2, 2], vec![2, 2, 2], vec![0, 1, 1, 0]] };
    for seq in unsub_seqs {
        let sq = seq.clone();
        v.push(Scenario {
            name: format!("C16/unsub/{:?}", seq),
            params: "selector subscription unsubscribed by another thread while actions are in flight".into(),
            opts: opts_elide(),
            bound: if tier == Tier::Quick || seq.len() > 3 { 2 } else { 3 },
            body: Arc::new(move || body_unsub(sq.clone())),
            check: Arc::new(check_unsub),
        });
    }
    let pairs: Vec<(Vec<usize>, Vec<usize>)> = if tier == Tier::Quick { vec![(vec![1, 1], vec![2])] } else { vec![(vec![1, 1], vec![2]), (vec![1, 2, 1], vec![2]), (vec![0, 0], vec![1, 1])] };
    for (a, b) in pairs {
        let (a2, b2) = (a.clone(), b.clone());
        v.push(Scenario {
            name: format!("C16/two-stores/{:?}{:?}", a, b),
            params: "one SelectorSubscriber object registered in two stores, one producer each".into(),
            opts: opts_elide(),
            bound: if tier == Tier::Quick { 2 } else { 3 },
            body: Arc::new(move || body_two_stores(a2.clone(), b2.clone())),
            check: Arc::new(check_two_stores),
        });
    }
    let panics: Vec<(Vec<usize>, usize)> = if tier == Tier::Quick { vec![(vec![1, 2, 2, 0, 1], 1)] } else { vec![(vec![1, 2, 2, 0, 1], 1), (vec![1, 2, 0], 0), (vec![0, 0, 1, 2], 2)] };
    for (vals, pos) in panics {
        let vs = vals.clone();
        v.push(Scenario {
            name: format!("C16/panic/{:?}@{}", vals, pos),
            params: "the selector callback panics on one delivery; a witness subscriber records the notification stream".into(),
            opts: opts_elide(),
            bound: if tier == Tier::Quick { 1 } else { 2 },
            body: Arc::new(move || body_panic(vs.clone(), pos)),
            check: Arc::new(check_panic),
        });
    }
    // sampling (labelled so): a few long pseudo-random sequences seeded by VERIF_SEED
    let mut s = seed as u64 ^ 0x9e3779b97f4a7c15;
    for i in 0..4 {
        let len = 40;
        let seq: Vec<usize> = (0..len).map(|_| (lcg(&mut s) % 3) as usize).collect();
        v.push(Scenario {
            name: format!("C16/random-direct/{}", i),
            params: format!("SAMPLED seed={} seq={:?}", seed, seq),
            opts: verif_rt::RunOpts::default(),
            bound: 0,
            body: Arc::new(move || body_direct(len, Some(seq.clone()))),
            check: Arc::new(check),
        });
        let len2 = 12;
        let seq2: Vec<(usize, usize)> = (0..len2).map(|_| ((lcg(&mut s) % 3) as usize, (lcg(&mut s) % 3 == 0) as usize)).collect();
        v.push(Scenario {
            name: format!("C16/random-store/{}", i),
            params: format!("SAMPLED seed={} seq={:?}", seed, seq2),
            opts: opts_elide(),
            bound: 0,
            body: Arc::new(move || body_store(len2, Some(seq2.clone()))),
            check: Arc::new(check),
        });
    }
    v
}
