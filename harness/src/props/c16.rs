//! C16 — selector subscribers fire exactly on changes of the selected value.

use crate::common::*;
use crate::oracle::*;
use crate::Tier;
use rs_store::{Selector, SelectorSubscriber, Subscriber};
use std::sync::Arc;
use verif_rt::core::ExecResult;
use verif_rt::explore::{Finding, Scenario};
use verif_rt::{choose, log, Ev};

struct Sel;
impl Selector<St, u32> for Sel {
    fn select(&self, state: &St) -> u32 {
        state.0.last().map(|m| mark_action(*m) % 3).unwrap_or(0)
    }
}

fn on_change(v: u32, a: Act) {
    log(Ev::Cb { kind: "sel_change", comp: 1, act: a.id, st: vec![], out: vec![], x: v as i64 });
}

/// action id whose selected value is `v`: position-unique, id % 3 == v
fn aid(pos: usize, v: usize) -> u32 {
    (300 + 3 * pos + v) as u32
}

/// (a) the subscriber object fed directly, every sequence of `len` values
fn body_direct(len: usize, seq: Option<Vec<usize>>) {
    let sub = SelectorSubscriber::new(Sel, on_change);
    let mut st = St::default();
    for pos in 0..len {
        let v = match &seq {
            Some(s) => s[pos],
            None => choose(3),
        };
        let a = Act::new(aid(pos, v));
        st.0.push(mark(0, a.id));
        log(Ev::Note { what: "fed", a: a.id as i64, b: v as i64 });
        sub.on_notify(&st, &a);
    }
}

/// (b) through a running store, Keep actions interleaved
fn body_store(len: usize, seq: Option<Vec<(usize, usize)>>) {
    let store = build_store(StoreCfg::new(1, 16, Pol::Block));
    log(Ev::Call { op: "add_subscriber", a: 1 });
    let _s = store.subscribe_with_selector(Sel, on_change);
    log(Ev::Ret { op: "add_subscriber", a: 1, ok: true, st: vec![] });
    for pos in 0..len {
        let (v, keep) = match &seq {
            Some(s) => s[pos],
            None => (choose(3), choose(2)),
        };
        let a = Act::new(aid(pos, v)).keep(keep as u8);
        if keep == 0 {
            log(Ev::Note { what: "fed", a: a.id as i64, b: v as i64 });
        }
        dispatch(&store, a);
    }
    stop(&store, 0);
}

pub fn check(r: &ExecResult) -> Vec<Finding> {
    let mut f = sanity(r);
    // reference: run-length de-duplication of the notification stream's selected values
    let mut want: Vec<(u32, i64)> = vec![];
    let mut last: Option<i64> = None;
    for (_, a, v) in notes(r, "fed") {
        if last != Some(v) {
            want.push((a as u32, v));
            last = Some(v);
        }
    }
    let got: Vec<(u32, i64)> = cbs_of(r, "sel_change").map(|c| (c.act, c.x)).collect();
    if got != want {
        let sig = if got.len() > want.len() {
            "selector-fired-without-change"
        } else if got.len() < want.len() {
            "selector-missed-change"
        } else {
            "selector-wrong-value-or-action"
        };
        f.push(fnd(sig, format!("selector callbacks (action, value) {:?}, expected {:?}", got, want)));
    }
    f
}

fn lcg(seed: &mut u64) -> u64 {
    *seed = seed.wrapping_mul(6364136223846793005).wrapping_add(1442695040888963407);
    *seed >> 33
}

pub fn scenarios(tier: Tier, seed: i64) -> Vec<Scenario> {
    let mut v = vec![];
    let (dmax, smax) = if tier == Tier::Quick { (7usize, 4usize) } else { (10, 5) };
    for len in 1..=dmax {
        v.push(Scenario {
            name: format!("C16/direct/len{}", len),
            params: "all value sequences over {0,1,2} fed to SelectorSubscriber::on_notify".into(),
            opts: verif_rt::RunOpts::default(),
            bound: 0,
            body: Arc::new(move || body_direct(len, None)),
            check: Arc::new(check),
        });
    }
    for len in 1..=smax {
        v.push(Scenario {
            name: format!("C16/store/len{}", len),
            params: "all (value, Dispatch|Keep) sequences through subscribe_with_selector on a running store".into(),
            opts: opts_elide(),
            bound: if len <= 3 { 1 } else { 0 },
            body: Arc::new(move || body_store(len, None)),
            check: Arc::new(check),
        });
    }
    // sampling (labelled so): a few long pseudo-random sequences seeded by VERIF_SEED
    let mut s = seed as u64 ^ 0x9e3779b97f4a7c15;
    for i in 0..4 {
        let len = 40;
        let seq: Vec<usize> = (0..len).map(|_| (lcg(&mut s) % 3) as usize).collect();
        v.push(Scenario {
            name: format!("C16/random-direct/{}", i),
            params: format!("SAMPLED seed={} seq={:?}", seed, seq),
            opts: verif_rt::RunOpts::default(),
            bound: 0,
            body: Arc::new(move || body_direct(len, Some(seq.clone()))),
            check: Arc::new(check),
        });
        let len2 = 12;
        let seq2: Vec<(usize, usize)> = (0..len2).map(|_| ((lcg(&mut s) % 3) as usize, (lcg(&mut s) % 3 == 0) as usize)).collect();
        v.push(Scenario {
            name: format!("C16/random-store/{}", i),
            params: format!("SAMPLED seed={} seq={:?}", seed, seq2),
            opts: opts_elide(),
            bound: 0,
            body: Arc::new(move || body_store(len2, Some(seq2.clone()))),
            check: Arc::new(check),
        });
    }
    v
}
