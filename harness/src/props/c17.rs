//! C17 — builder: validation and option independence.  Every sequence of builder calls up to a
//! length bound (data choices), compared with a record-of-last-settings model, including
//! behavioural probes of the built store.

use crate::common::*;
use crate::oracle::*;
use crate::Tier;
use rs_store::{Middleware, Reducer, StoreBuilder};
use std::sync::Arc;
use verif_rt::core::ExecResult;
use verif_rt::explore::{Finding, Scenario};
use verif_rt::thread::spawn_client;
use verif_rt::{choose, log, quiesce, Ev, Gate};

pub const CALLS: [&str; 20] = [
    "with_name(alpha)",
    "with_name(bravo)",
    "with_name()",
    "with_reducer",
    "with_reducers[2]",
    "with_reducers[]",
    "add_reducer",
    "without_reducer",
    "with_capacity(0)",
    "with_capacity(1)",
    "with_capacity(2)",
    "with_policy(block)",
    "with_policy(oldest)",
    "with_policy(latest)",
    "with_middleware",
    "with_middlewares[2]",
    "with_middlewares[]",
    "add_middleware",
    "with_capacity(3)",
    "add_middleware(shared)",
];

const GATED: u32 = 7;
const PLUG: u32 = 1;
const BURST: u32 = 4;

#[derive(Clone, Debug)]
struct Model {
    name: String,
    reducers: Vec<u32>,
    /// without_reducer() requested at all / requested after the last with_reducer(s)
    wr_ever: bool,
    wr_current: bool,
    cap: usize,
    pol: Pol,
    mws: Vec<u32>,
}

fn red(idx: u32, knobs: &Knobs) -> Box<dyn Reducer<St, Act> + Send + Sync> {
    Box::new(ScriptReducer { idx, knobs: knobs.clone() })
}
fn mw(idx: u32) -> Arc<dyn Middleware<St, Act> + Send + Sync> {
    Arc::new(ScriptMw::passive(idx))
}

fn body(len: usize, with_reducer_ctor: bool) {
    let gate = Gate::new(0);
    let knobs = Knobs { reducer_gate: Some(gate), gate_idx: GATED, ..Default::default() };
    let mut m = Model {
        name: "store".into(),
        reducers: if with_reducer_ctor { vec![0] } else { vec![] },
        wr_ever: false,
        wr_current: false,
        cap: 16,
        pol: Pol::Block,
        mws: vec![],
    };
    let mut b = if with_reducer_ctor {
        StoreBuilder::new_with_reducer(St::default(), red(0, &knobs))
    } else {
        StoreBuilder::new(St::default())
    };
    // one middleware object that can be configured several times (it then runs several times)
    let shared = mw(40);
    for i in 0..len {
        let c = choose(CALLS.len());
        log(Ev::Note { what: "call", a: i as i64, b: c as i64 });
        // component ids are unique per call position so that order and identity are visible;
        // they stay below 8 (scripted reducers index a bit mask) and differ from GATED
        let r1 = if i < 4 { 1 + i as u32 } else { 6 }; // 1..=4, 6 (len <= 5; 5 and 7 are taken)
        let m1 = 10 + 2 * i as u32;
        b = match c {
            0 => { m.name = "alpha".into(); b.with_name("alpha".into()) }
            1 => { m.name = "bravo".into(); b.with_name("bravo".into()) }
            2 => { m.name = "".into(); b.with_name("".into()) }
            3 => { m.reducers = vec![r1]; m.wr_current = false; b.with_reducer(red(r1, &knobs)) }
            4 => { m.reducers = vec![r1, 5]; m.wr_current = false; b.with_reducers(vec![red(r1, &knobs), red(5, &knobs)]) }
            5 => { m.reducers = vec![]; m.wr_current = false; b.with_reducers(vec![]) }
            6 => { m.reducers.push(r1); b.add_reducer(red(r1, &knobs)) }
            7 => { m.wr_ever = true; m.wr_current = true; b.without_reducer() }
            8 => { m.cap = 0; b.with_capacity(0) }
            9 => { m.cap = 1; b.with_capacity(1) }
            10 => { m.cap = 2; b.with_capacity(2) }
            11 => { m.pol = Pol::Block; b.with_policy(Pol::Block.to()) }
            12 => { m.pol = Pol::Oldest; b.with_policy(Pol::Oldest.to()) }
            13 => { m.pol = Pol::Latest; b.with_policy(Pol::Latest.to()) }
            14 => { m.mws = vec![m1]; b.with_middleware(mw(m1)) }
            15 => { m.mws = vec![m1, m1 + 1]; b.with_middlewares(vec![mw(m1), mw(m1 + 1)]) }
            16 => { m.mws = vec![]; b.with_middlewares(vec![]) }
            17 => { m.mws.push(m1); b.add_middleware(mw(m1)) }
            18 => { m.cap = 3; b.with_capacity(3) }
            19 => { m.mws.push(40); b.add_middleware(shared.clone()) }
            _ => unreachable!(),
        };
    }
    // what the model says
    let red_verdict: i64 = if !m.reducers.is_empty() || m.wr_current {
        1 // fine
    } else if !m.wr_ever {
        0 // must fail
    } else {
        2 // without_reducer() requested, then the list replaced by an empty one: unspecified
    };
    let must_fail = m.cap == 0 || m.name.is_empty() || red_verdict == 0;
    let unspecified = !must_fail && red_verdict == 2;
    log(Ev::Note { what: "model_build", a: if must_fail { 0 } else { 1 }, b: unspecified as i64 });
    log(Ev::Note { what: "model_cap_pol", a: m.cap as i64, b: m.pol as i64 });
    for r in &m.reducers {
        log(Ev::Note { what: "model_reducer", a: *r as i64, b: 0 });
    }
    for x in &m.mws {
        log(Ev::Note { what: "model_mw", a: *x as i64, b: 0 });
    }
    log(Ev::Note { what: if m.name == "alpha" { "model_name_a" } else if m.name == "bravo" { "model_name_b" } else { "model_name_store" }, a: 0, b: 0 });
    let store = match b.build() {
        Ok(s) => {
            log(Ev::Note { what: "build", a: 1, b: 0 });
            s
        }
        Err(_) => {
            log(Ev::Note { what: "build", a: 0, b: 0 });
            return;
        }
    };
    // ---- behavioural probes on the running store
    store.add_reducer(red(GATED, &knobs)); // parks on the gate: lets us observe capacity and policy
    let _sub = add_subscriber(&store, Arc::new(ScriptSub::new(1)), 1);
    dispatch(&store, Act::new(PLUG));
    quiesce(); // the plug is now inside the gated reducer, the queue is empty
    note("quiesced", 0, 0);
    let s2 = store.clone();
    let h = spawn_client("burst", move || {
        for q in 0..BURST {
            dispatch(&s2, Act::new(100 + q));
        }
    });
    quiesce();
    note("quiesced", 1, 0);
    gate.open(64);
    let _ = h.join();
    quiesce();
    stop(&store, 0);
}

pub fn check(r: &ExecResult) -> Vec<Finding> {
    let mut f = sanity(r);
    let calls_s: Vec<&str> = notes(r, "call").map(|n| CALLS[n.2 as usize]).collect();
    let mb = notes(r, "model_build").next().unwrap();
    let built = notes(r, "build").next().map(|n| n.1 == 1).unwrap_or(false);
    let must_build = mb.1 == 1;
    let unspecified = mb.2 == 1;
    if !unspecified && built != must_build {
        f.push(fnd(
            if built { "builder-accepted-invalid" } else { "builder-rejected-valid" },
            format!("builder calls {:?}: build() {} but the settings say it must {}", calls_s, if built { "succeeded" } else { "failed" }, if must_build { "succeed" } else { "fail" }),
        ));
        return f;
    }
    if !built {
        return f;
    }
    // reducer chain and middleware list, from the plug action
    let want_red: Vec<u32> = notes(r, "model_reducer").map(|n| n.1 as u32).chain([GATED]).collect();
    let got_red: Vec<u32> = cbs_of(r, "reduce").filter(|c| c.act == PLUG).map(|c| c.comp).collect();
    if want_red != got_red {
        f.push(fnd("builder-reducers", format!("builder calls {:?}: reducers that ran {:?}, configured {:?} (+ probe reducer {})", calls_s, got_red, &want_red[..want_red.len() - 1], GATED)));
    }
    let want_mw: Vec<u32> = notes(r, "model_mw").map(|n| n.1 as u32).collect();
    let got_mw: Vec<u32> = cbs_of(r, "mw_before_reduce").filter(|c| c.act == PLUG).map(|c| c.comp).collect();
    if want_mw != got_mw {
        f.push(fnd("builder-middlewares", format!("builder calls {:?}: middlewares that ran {:?}, configured {:?}", calls_s, got_mw, want_mw)));
    }
    // name: the pool's threads carry it
    let want_name = if notes(r, "model_name_a").next().is_some() { "alpha" } else if notes(r, "model_name_b").next().is_some() { "bravo" } else { "store" };
    if let Some(t) = pipe(r).reducer_task {
        let n = &r.task_names[t as usize].0;
        // how the name is woven into thread names is the implementation's business: it only has
        // to be the configured one and none of the others
        let others = ["alpha", "bravo", "store"];
        if !n.contains(want_name) || others.iter().any(|o| *o != want_name && n.contains(o)) {
            f.push(fnd("builder-name", format!("builder calls {:?}: reducer thread is called {} but the configured name is {:?}", calls_s, n, want_name)));
        }
    }
    // capacity and policy from the burst into the parked store
    let (cap, pol) = notes(r, "model_cap_pol").next().map(|n| (n.1 as usize, n.2)).unwrap();
    let q1 = notes(r, "quiesced").filter(|n| n.1 == 1).map(|n| n.0).next().unwrap_or(usize::MAX);
    let returned = rets(r, "dispatch").filter(|d| d.i < q1 && d.a >= 100).count();
    let survivors: Vec<u32> = pipe(r).order.iter().copied().filter(|a| *a >= 100).collect();
    let burst: Vec<u32> = (100..100 + BURST).collect();
    let b = BURST as usize;
    let (want_returned, want_surv): (usize, Vec<u32>) = match pol {
        0 => (cap.min(b), burst.clone()),
        1 => (b, burst[b.saturating_sub(cap)..].to_vec()),
        _ => (b, burst[..cap.min(b)].to_vec()),
    };
    if returned != want_returned || survivors != want_surv {
        f.push(fnd(
            "builder-capacity-or-policy",
            format!(
                "builder calls {:?}: configured capacity {} policy {}; with the reducer parked {} of {} burst dispatches returned (expected {}), survivors {:?} (expected {:?})",
                calls_s, cap, ["block", "oldest", "latest"][pol as usize], returned, b, want_returned, survivors, want_surv
            ),
        ));
    }
    f
}

pub fn scenarios(tier: Tier) -> Vec<Scenario> {
    let mut v = vec![];
    let maxlen = if tier == Tier::Quick { 3 } else { 5 };
    for len in 0..=maxlen {
        for ctor in [false, true] {
            v.push(Scenario {
                name: format!("C17/{}len{}", if ctor { "new_with_reducer/" } else { "new/" }, len),
                params: format!("all {}^{} builder call sequences over {:?}", CALLS.len(), len, CALLS),
                // the probe registers a reducer at run time: only the middleware list is task-local
                opts: verif_rt::RunOpts { elide: vec![ELIDE_MW], ..Default::default() },
                bound: 0,
                body: Arc::new(move || body(len, ctor)),
                check: Arc::new(check),
            });
        }
    }
    v
}
