//! C11 — effects run exactly once, outside the reducer context.

use super::scn;
use crate::common::*;
use crate::oracle::*;
use crate::prog::{Op, Program, StoreSpec};
use crate::Tier;
use std::collections::HashMap;
use verif_rt::core::ExecResult;
use verif_rt::explore::{Finding, Scenario};
use verif_rt::Ev;

fn acts_of(p: &Program) -> HashMap<u32, Act> {
    let mut m = HashMap::new();
    fn visit(op: &Op, m: &mut HashMap<u32, Act>) {
        match op {
            Op::Dispatch(a) | Op::DispatchDyn(a) | Op::DispatchVia(a) => {
                m.insert(a.id, a.clone());
            }
            Op::On(_, o) => visit(o, m),
            _ => {}
        }
    }
    for op in &p.main {
        visit(op, &mut m);
    }
    for t in &p.threads {
        for op in &t.2 {
            visit(op, &mut m);
        }
    }
    m
}

pub fn check(r: &ExecResult, prog: &Program) -> Vec<Finding> {
    let mut f = sanity(r);
    let p = pipe(r);
    let acts = acts_of(prog);
    let sc = first_stop_call(r).min(calls(r, "close").map(|c| c.i).next().unwrap_or(usize::MAX));
    let sr = first_stop_ret(r);
    let timed_out = r.timeouts > 0;
    let closed_before_failed_job = r.log.iter().enumerate().any(|(i, rec)| matches!(rec.ev, Ev::JobEnd { panicked: true, .. }) && sc < i);
    // end of an action's pipeline: the reducer context's next queue read (or the end of its job)
    let pipeline_end = |a: u32| -> usize {
        let from = p.last_reduce_idx[&a];
        r.log[from..]
            .iter()
            .position(|rec| {
                Some(rec.task) == p.reducer_task
                    && match rec.ev {
                        Ev::ChanRecv { ch, .. } => dispatch_chans(r).contains(&ch),
                        Ev::JobEnd { .. } => true,
                        _ => false,
                    }
            })
            .map(|k| from + k)
            .unwrap_or(usize::MAX)
    };
    let mut expected_runs: Vec<(u32, u32)> = vec![]; // (slot, action)
    for a in &p.order {
        let act = match acts.get(a) {
            Some(x) => x.clone(),
            None => Act::new(*a), // children carry no effects
        };
        let accepted_before_stop = rets(r, "dispatch").any(|d| d.a as u32 == *a && d.ok && d.i < sc) || *a >= CHILD_OFFSET;
        let mut effs: Vec<(u32, u8)> = cbs_of(r, "reduce")
            .filter(|c| c.act == *a && (c.comp as usize) < 3 && act.eff[c.comp as usize] != EFF_NONE)
            .map(|c| (c.comp, act.eff[c.comp as usize]))
            .collect();
        for (_, aa, pos) in notes(r, "effect_removed") {
            if aa as u32 == *a && (pos as usize) < effs.len() {
                effs.remove(pos as usize);
            }
        }
        for (slot, kind) in effs {
            if kind == EFF_ACTION {
                let child = a + CHILD_OFFSET;
                let n = p.order.iter().filter(|x| **x == child).count();
                let after_parent = p.order.iter().position(|x| *x == child).map(|pc| pc > p.order.iter().position(|x| x == a).unwrap()).unwrap_or(true);
                if n > 1 {
                    f.push(fnd("effect-action-twice", format!("Effect::Action child {} was reduced {} times", child, n)));
                } else if n == 0 && !closed_before_failed_job && sc > pipeline_end(*a) && accepted_before_stop {
                    f.push(fnd("effect-action-lost", format!("Effect::Action child {} of action {} was never reduced although the store was not closed", child, a)));
                } else if !after_parent {
                    f.push(fnd("effect-action-before-parent", format!("Effect::Action child {} was reduced before its parent {}", child, a)));
                }
                continue;
            }
            expected_runs.push((slot, *a));
            let runs: Vec<CbEv> = cbs_of(r, "effect").filter(|c| c.comp == slot && c.act == *a).collect();
            if runs.len() > 1 {
                f.push(fnd("effect-ran-twice", format!("effect {} of action {} ran {} times", slot, a, runs.len())));
            } else if runs.is_empty() {
                if accepted_before_stop && !timed_out {
                    let stop_called_before_pipeline_end = pipeline_end(*a) > sc;
                    f.push(fnd(
                        if stop_called_before_pipeline_end { "effect-skipped-backlog-at-stop" } else { "effect-never-ran" },
                        format!("effect {} (kind {}) of action {} never ran although the action was accepted before stop() was called", slot, kind, a),
                    ));
                }
            } else if Some(runs[0].task) == p.reducer_task {
                f.push(fnd("effect-in-reducer-context", format!("effect {} of action {} ran in the reducer context", slot, a)));
            }
        }
    }
    // client thunks / tasks
    for op in ["dispatch_thunk", "dispatch_task"] {
        for c in rets(r, op) {
            let n = cbs_of(r, "effect").filter(|e| e.comp == 9 && e.act == c.a as u32).count();
            if n > 1 {
                f.push(fnd("effect-ran-twice", format!("{}({}) ran {} times", op, c.a, n)));
            } else if n == 0 && c.i < sc && !timed_out {
                f.push(fnd("client-effect-never-ran", format!("{}({}) was handed over while the store was running but never ran", op, c.a)));
            }
            expected_runs.push((9, c.a as u32));
        }
    }
    // nothing unexpected (removed effects must not run), nothing after stop() returned
    for e in cbs_of(r, "effect") {
        if !expected_runs.contains(&(e.comp, e.act)) {
            f.push(fnd("effect-unexpected", format!("effect {} of action {} ran although a middleware removed it (or it was never issued)", e.comp, e.act)));
        }
        if e.i > sr && !timed_out {
            f.push(fnd("effect-after-stop", format!("effect {} of action {} ran after stop() had returned", e.comp, e.act)));
        }
    }
    // a parked effect does not hold up later actions
    if let Some((q, _, _)) = notes(r, "quiesced").next() {
        for d in rets(r, "dispatch") {
            if d.ok && d.i < q && p.last_reduce_idx.get(&(d.a as u32)).map(|&i| i > q).unwrap_or(true) {
                f.push(fnd("effect-stalls-reducer", format!("with an effect parked, action {} was not reduced", d.a)));
            }
        }
    }
    // every accepted action is reduced once (a panicking effect must not break later actions)
    for d in rets(r, "dispatch") {
        if d.ok && !timed_out {
            let n = p.order.iter().filter(|x| **x == d.a as u32).count();
            if n != 1 {
                f.push(fnd("effect-breaks-pipeline", format!("action {} was accepted but reduced {} times", d.a, n)));
            }
        }
    }
    f.dedup_by(|a, b| a.sig == b.sig);
    f
}

pub fn scenarios(tier: Tier) -> Vec<Scenario> {
    let mut v = vec![];
    let mut add = |name: &str, reducers: u32, acts: Vec<Act>, client: Vec<Op>, removes: bool, gated: bool, bound: u32| {
        // "tight": the queue is full while the effect's own dispatch is pending
        let cap = if name.starts_with("tight") { 1 } else { 4 };
        let mut spec = StoreSpec::new(reducers, cap, Pol::Block);
        if removes {
            spec.mws = 1;
            spec.mw_removes_effect = Some(0);
        }
        let mut prog = Program::new(spec).thread("p0", acts.into_iter().map(Op::Dispatch).collect());
        if !client.is_empty() {
            prog = prog.thread("c0", client);
        }
        // "race-*": stop() is called while the clients are still handing work over
        let mut main = if name.starts_with("race") { vec![Op::SpawnAll] } else { vec![Op::SpawnAll, Op::JoinAll] };
        if gated {
            main.extend([Op::Quiesce, Op::OpenGate(1, 8)]);
        }
        main.push(Op::Stop);
        prog = prog.main(main);
        let o = if removes { verif_rt::RunOpts { elide: vec![ELIDE_RED], ..Default::default() } } else { opts_elide() };
        v.push(scn(format!("C11/{}", name), prog, bound, o, check));
    };
    let kinds = [EFF_TASK, EFF_THUNK, EFF_FUNCTION, EFF_ACTION, EFF_THUNK_DISPATCH];
    let b = if tier == Tier::Quick { 2 } else { 3 };
    for &k in &kinds {
        add(&format!("kind{}x1", k), 1, vec![Act::new(100).eff(0, k), Act::new(101)], vec![], false, false, b);
    }
    add("tight-action", 1, vec![Act::new(100).eff(0, EFF_ACTION), Act::new(101), Act::new(102)], vec![], false, false, 2);
    add("tight-thunk", 1, vec![Act::new(100).eff(0, EFF_THUNK_DISPATCH), Act::new(101), Act::new(102)], vec![], false, false, 2);
    add("two-effects", 2, vec![Act::new(100).eff(0, EFF_TASK).eff(1, EFF_THUNK), Act::new(101).eff(1, EFF_FUNCTION)], vec![], false, false, 2);
    add("removed", 2, vec![Act::new(100).eff(0, EFF_TASK).eff(1, EFF_THUNK), Act::new(101).eff(0, EFF_TASK)], vec![], true, false, 2);
    // a panicking effect must not take the other effects of the same action down with it
    add("panic-sibling", 2, vec![Act::new(100).eff(0, EFF_PANIC_TASK).eff(1, EFF_FUNCTION), Act::new(101).eff(0, EFF_PANIC_TASK).eff(1, EFF_ACTION)], vec![], false, false, 2);
    add("panic", 1, vec![Act::new(100).eff(0, EFF_PANIC_TASK), Act::new(101).eff(0, EFF_TASK)], vec![], false, false, 2);
    add("gated", 1, vec![Act::new(100).eff(0, EFF_GATED_TASK), Act::new(101), Act::new(102).eff(0, EFF_TASK)], vec![], false, true, 2);
    add("client", 1, vec![Act::new(100)], vec![Op::ClientThunk(500), Op::ClientTask(501)], false, false, 2);
    add("race-client-task", 1, vec![], vec![Op::ClientTask(501)], false, false, 3);
    add("race-client-thunk", 1, vec![Act::new(100)], vec![Op::ClientThunk(500)], false, false, 2);
    if tier == Tier::Thorough {
        for &k1 in &kinds {
            for &k2 in &kinds {
                add(&format!("kind{}+{}", k1, k2), 2, vec![Act::new(100).eff(0, k1).eff(1, k2), Act::new(101).eff(0, k2)], vec![], false, false, 2);
            }
        }
        add("keep+effect", 1, vec![Act::new(100).keep(1).eff(0, EFF_TASK), Act::new(101).keep(1).eff(0, EFF_ACTION), Act::new(102)], vec![], false, false, 3);
        add("panic+client", 1, vec![Act::new(100).eff(0, EFF_PANIC_TASK), Act::new(101).eff(0, EFF_THUNK_DISPATCH)], vec![Op::ClientThunk(500)], false, false, 2);
        add("race-client-both", 1, vec![Act::new(100).eff(0, EFF_TASK)], vec![Op::ClientTask(501), Op::ClientThunk(500)], false, false, 3);
        add("removed-b3", 2, vec![Act::new(100).eff(0, EFF_TASK).eff(1, EFF_THUNK)], vec![], true, false, 3);
    }
    v
}
