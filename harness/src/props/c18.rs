//! C18 — metrics counters add up.

use super::scn;
use crate::common::*;
use crate::oracle::*;
use crate::prog::{Op, Program, StoreSpec};
use crate::Tier;
use std::collections::HashMap;
use verif_rt::core::ExecResult;
use verif_rt::explore::{Finding, Scenario};

const NAMES: [&str; 8] = [
    "action_received",
    "action_dropped",
    "action_reduced",
    "effect_issued",
    "middleware_executed",
    "error_occurred",
    "state_notified",
    "subscriber_notified",
];

fn acts_of(p: &Program) -> HashMap<u32, Act> {
    let mut m = HashMap::new();
    for t in &p.threads {
        for op in &t.2 {
            if let Op::Dispatch(a) | Op::DispatchVia(a) | Op::DispatchDyn(a) = op {
                m.insert(a.id, a.clone());
            }
        }
    }
    m
}

pub fn check(r: &ExecResult, prog: &Program) -> Vec<Finding> {
    let mut f = sanity(r);
    let p = pipe(r);
    let spec = &prog.stores[0];
    let acts = acts_of(prog);
    // monotonic per sampling task, and across tasks in real-time order (snapshots are taken field
    // by field, so only same-field comparisons are meaningful)
    let snaps: Vec<CallEv> = rets(r, "get_metrics").collect();
    for x in &snaps {
        for y in &snaps {
            let y_call = r.log[..y.i].iter().rposition(|e| e.task == y.task && matches!(&e.ev, verif_rt::Ev::Call { op: "get_metrics", .. })).unwrap_or(y.i);
            if x.i < y_call {
                for k in 0..8 {
                    if y.st[k] < x.st[k] {
                        f.push(fnd("metric-decreased", format!("{} went from {} to {}", NAMES[k], x.st[k], y.st[k])));
                    }
                }
            }
        }
    }
    // balance after stop
    let sr = first_stop_ret(r);
    let last = match snaps.iter().filter(|s| s.i > sr && r.task_names[s.task as usize].0 == "main").last() {
        Some(l) => l,
        None => return f,
    };
    if r.timeouts > 0 {
        return f;
    }
    let m = last.st;
    // R: actions that entered the pipeline
    let entered: Vec<u32> = if spec.mws > 0 {
        let mut v: Vec<u32> = cbs_of(r, "mw_before_reduce").filter(|c| c.comp == 0).map(|c| c.act).collect();
        v.dedup();
        v
    } else {
        p.order.clone()
    };
    let rr = entered.len() as u32;
    let dispatched_open = rets(r, "dispatch").filter(|d| d.i < sr && (d.a as u32) < 900).count() as u32;
    let exit_always = spec.pol != Pol::Latest;
    if !(m[0] == rr + 1 || (!exit_always && m[0] == rr)) {
        f.push(fnd("metric-received", format!("action_received = {} but {} actions entered the pipeline (+1 shutdown marker{})", m[0], rr, if exit_always { "" } else { ", optional under DropLatest" })));
    }
    if rr + m[1] != dispatched_open {
        f.push(fnd("metric-conservation", format!("received {} + dropped {} != dispatched while open {}", rr, m[1], dispatched_open)));
    }
    if m[2] != p.order.len() as u32 {
        f.push(fnd("metric-reduced", format!("action_reduced = {} but {} actions went through the reducers ({} entered, the rest vetoed)", m[2], p.order.len(), rr)));
    }
    let issued = cbs_of(r, "reduce").filter(|c| (c.comp as usize) < 3 && acts.get(&c.act).map(|a| a.eff[c.comp as usize] != EFF_NONE).unwrap_or(false)).count() as u32;
    if m[3] != issued {
        f.push(fnd("metric-effects", format!("effect_issued = {} but reducers returned {} effects", m[3], issued)));
    }
    let hooks = cbs(r).filter(|c| matches!(c.kind, "mw_before_reduce" | "mw_before_effect" | "mw_before_dispatch")).count() as u32;
    if m[4] != hooks {
        f.push(fnd("metric-middleware", format!("middleware_executed = {} but {} hooks were invoked", m[4], hooks)));
    }
    let rejected = r
        .log
        .iter()
        .filter(|e| matches!(&e.ev, verif_rt::Ev::Ret { op: "dispatch", ok: false, a, .. } if *a == 901 || *a == 902))
        .count() as u32;
    if m[5] != rejected {
        f.push(fnd("metric-errors", format!("error_occurred = {} but the store's own dispatch rejected {} calls", m[5], rejected)));
    }
    f.dedup_by(|a, b| a.sig == b.sig);
    f
}

pub fn scenarios(tier: Tier) -> Vec<Scenario> {
    let mut v = vec![];
    // mwpat: 0 no middleware; 1 one passive; 2 two, first vetoes in before_reduce (Done);
    // 3 two, first breaks in before_effect, second errs in before_dispatch; 4 one, removes an effect
    let mut add = |pol: Pol, cap: usize, mwpat: u8, effs: bool, np: u32, k: u32, sampler: bool, bound: u32| {
        let mut spec = StoreSpec::new(1, cap, pol);
        match mwpat {
            1 => spec.mws = 1,
            2 => {
                spec.mws = 2;
                spec.verdicts = vec![(HOOK_REDUCE, 0, Verdict::Done)];
            }
            3 => {
                spec.mws = 2;
                spec.verdicts = vec![(HOOK_EFFECT, 0, Verdict::Break), (HOOK_DISPATCH, 1, Verdict::Err)];
            }
            4 => {
                // a middleware that consumes the first effect in before_effect
                spec.mws = 1;
                spec.mw_removes_effect = Some(0);
            }
            _ => {}
        }
        let mut prog = Program::new(spec);
        for p in 0..np {
            let ops = (0..k).map(|q| Op::Dispatch(Act::new(100 * (p + 1) + q).eff(0, if effs && q == 0 { EFF_TASK } else { EFF_NONE }))).collect();
            prog = prog.thread(&format!("p{}", p), ops);
        }
        if sampler {
            prog = prog.thread("sampler", vec![Op::GetMetrics(1), Op::GetMetrics(2), Op::GetMetrics(3)]);
        }
        prog = prog.main(vec![
            Op::AddSub { id: 1, gated: false, reads: false },
            Op::SpawnAll,
            Op::JoinAll,
            Op::Stop,
            Op::Dispatch(Act::new(901)),
            Op::DispatchDyn(Act::new(902)),
            Op::DispatchVia(Act::new(903)),
            Op::GetMetrics(9),
        ]);
        let mut o = if mwpat == 0 { opts_elide() } else { verif_rt::RunOpts { elide: vec![ELIDE_RED, ELIDE_MW], ..Default::default() } };
        o.atomic_points = sampler;
        v.push(scn(
            format!("C18/{}cap{}mw{}{}P{}k{}{}", pol.s(), cap, mwpat, if effs { "eff" } else { "" }, np, k, if sampler { "+sampler" } else { "" }),
            prog,
            bound,
            o,
            check,
        ));
    };
    match tier {
        Tier::Quick => {
            for pol in Pol::ALL {
                add(pol, 1, 0, true, 2, 1, false, 2);
                add(pol, 2, 2, false, 1, 3, false, 2);
                add(pol, 1, 3, true, 1, 2, false, 2);
            }
            add(Pol::Block, 1, 4, true, 1, 2, false, 2);
            add(Pol::Block, 1, 1, true, 1, 1, true, 1);
            add(Pol::Oldest, 1, 0, false, 1, 2, true, 1);
        }
        Tier::Thorough => {
            for pol in Pol::ALL {
                for cap in 1..=2usize {
                    for mwpat in 0..=4u8 {
                        for effs in [false, true] {
                            add(pol, cap, mwpat, effs, 1, 3, false, 3);
                            add(pol, cap, mwpat, effs, 2, 2, false, 2);
                        }
                    }
                }
                add(pol, 1, 0, true, 1, 2, true, 2);
                add(pol, 1, 2, false, 1, 2, true, 2);
                add(pol, 1, 1, true, 2, 1, true, 1);
            }
        }
    }
    // a middleware is added at run time while actions are in flight: every hook that runs is counted
    for (pol, mws, k, bound) in if tier == Tier::Quick { vec![(Pol::Block, 1u32, 2u32, 2u32)] } else { vec![(Pol::Block, 1, 2, 3), (Pol::Block, 0, 2, 3), (Pol::Oldest, 2, 2, 2), (Pol::Latest, 1, 3, 2)] } {
        let mut spec = StoreSpec::new(1, 2, pol);
        spec.mws = mws;
        let mut prog = Program::new(spec);
        prog = prog.thread("p0", (0..k).map(|q| Op::Dispatch(Act::new(100 + q))).collect());
        prog = prog.thread("registrar", vec![Op::AddMiddleware(5)]);
        prog = prog.main(vec![Op::AddSub { id: 1, gated: false, reads: false }, Op::SpawnAll, Op::JoinAll, Op::Stop, Op::GetMetrics(9)]);
        v.push(scn(format!("C18/{}mw{}k{}+add_middleware", pol.s(), mws, k), prog, bound, verif_rt::RunOpts::default(), check));
    }
    // the store is also observed through a channeled subscriber and a state iterator: their
    // private channels must not leak into the store's own counters
    for (pol, k, bound) in if tier == Tier::Quick { vec![(Pol::Block, 2u32, 1u32)] } else { vec![(Pol::Block, 2, 2), (Pol::Oldest, 2, 2), (Pol::Latest, 3, 1)] } {
        let mut prog = Program::new(StoreSpec::new(1, 2, pol));
        prog = prog.thread("p0", (0..k).map(|q| Op::Dispatch(Act::new(100 + q))).collect());
        prog = prog.thread("consumer", vec![Op::IterOpen(40), Op::OpenGate(2, 1), Op::IterNext(40, 99), Op::IterClose(40)]);
        prog = prog.main(vec![
            Op::AddSub { id: 1, gated: false, reads: false },
            Op::Subscribed { id: 2, cap: 2, pol: Pol::Block, gated: false, reads: false },
            Op::SpawnAll,
            Op::PassGate(2),
            Op::JoinThese(vec!["p0"]),
            Op::Stop,
            Op::JoinAll,
            Op::GetMetrics(9),
        ]);
        v.push(scn(format!("C18/{}k{}+observers", pol.s(), k), prog, bound, opts_elide(), check));
    }
    v
}
