//! C04 — stop() is a barrier and is final.

use super::{producers, scn};
use crate::common::*;
use crate::oracle::*;
use crate::prog::{Op, Program, StoreSpec};
use crate::Tier;
use verif_rt::core::ExecResult;
use verif_rt::explore::{Finding, Scenario};
use verif_rt::Ev;

const CALLBACK_KINDS: [&str; 7] = [
    "reduce",
    "mw_before_reduce",
    "mw_before_effect",
    "mw_before_dispatch",
    "mw_on_error",
    "notify",
    "unsub_cb",
];

/// `direct`: ids of direct subscribers registered before the run; `chan_block`: channeled
/// subscribers with the blocking policy registered before the run.
pub fn check(r: &ExecResult, pol: Pol, direct: &[u32], chan_block: &[u32]) -> Vec<Finding> {
    let mut f = sanity(r);
    let p = pipe(r);
    let sr = first_stop_ret(r);
    if sr == usize::MAX {
        return f; // stop never returned: reported by sanity as stuck
    }
    let timed_out = timeout_before(r, sr);
    // Err => never reduced, under every policy
    for d in rets(r, "dispatch") {
        let a = d.a as u32;
        if !d.ok && p.order.contains(&a) {
            f.push(fnd("stop-rejected-but-reduced", format!("dispatch({}) returned Err but the action was reduced", a)));
        }
    }
    if !timed_out {
        // barrier: Ok (blocking policy) => whole pipeline before stop() returned
        if pol == Pol::Block {
            for d in rets(r, "dispatch") {
                let a = d.a as u32;
                if !d.ok {
                    continue;
                }
                match p.last_reduce_idx.get(&a) {
                    None => f.push(fnd("stop-accepted-not-reduced", format!("dispatch({}) returned Ok but the action was never reduced", a))),
                    Some(&i) if i > sr => f.push(fnd("stop-reduced-after-return", format!("action {} was reduced after stop() had returned", a))),
                    _ => {}
                }
                if p.notifies.get(&a) == Some(&true) && p.uniform.get(&a) == Some(&true) {
                    for &s in direct.iter().chain(chan_block.iter()) {
                        let n: Vec<usize> = cbs_of(r, "notify").filter(|c| c.comp == s && c.act == a).map(|c| c.i).collect();
                        if n.is_empty() || n[0] > sr {
                            f.push(fnd(
                                if direct.contains(&s) { "stop-not-notified-before-return" } else { "stop-channel-not-flushed" },
                                format!("action {} was accepted but subscriber {} had not been told when stop() returned", a, s),
                            ));
                        }
                    }
                }
            }
        }
        // finality: no callback of any kind after stop() returned
        for c in cbs(r) {
            if c.i > sr && CALLBACK_KINDS.contains(&c.kind) {
                f.push(fnd("stop-callback-after-return", format!("{} callback (component {}, action {}) ran after stop() had returned", c.kind, c.comp, c.act)));
                break;
            }
        }
        // every subscriber registered before stop is released by the time it returns (direct ones)
        for &s in direct {
            let n = cbs_of(r, "unsub_cb").filter(|c| c.comp == s && c.i < sr).count();
            if n != 1 {
                f.push(fnd("stop-sub-not-released", format!("direct subscriber {} got on_unsubscribe {} times by the time stop() returned", s, n)));
            }
        }
    }
    // dispatches invoked after stop() returned are rejected
    for d in calls(r, "dispatch") {
        if d.i > sr {
            if let Some(ret) = rets(r, "dispatch").find(|x| x.a == d.a && x.i > d.i) {
                if ret.ok {
                    f.push(fnd("stop-dispatch-accepted-after", format!("dispatch({}) invoked after stop() returned Ok", d.a)));
                }
            }
        }
    }
    // state is frozen after stop() returned
    let after: Vec<&Vec<u32>> = rets(r, "get_state").filter(|g| g.i > sr).map(|g| g.st).collect();
    if !timed_out {
        if let Some(first) = after.first() {
            let last_state = p.order.last().map(|a| p.after[a].clone()).unwrap_or_default();
            if **first != last_state {
                f.push(fnd("stop-final-state", format!("state after stop() is {} but the last reduced state is {}", fmt_st(first), fmt_st(&last_state))));
            }
            if after.iter().any(|s| s != first) {
                f.push(fnd("stop-state-changed-after", "get_state() changed after stop() had returned".into()));
            }
        }
    }
    // a later stop() returns immediately: nothing but its own call/ret from that task in between
    let stops: Vec<usize> = calls(r, "stop").map(|c| c.i).collect();
    for &sc in stops.iter().filter(|&&i| i > sr) {
        if let Some(ret) = rets(r, "stop").find(|x| x.i > sc) {
            let t = r.log[sc].task;
            for rec in &r.log[sc + 1..ret.i] {
                if rec.task == t {
                    match rec.ev {
                        Ev::Exit | Ev::Spawn { .. } => {}
                        _ => {
                            f.push(fnd("stop-second-not-immediate", format!("a stop() after the first one did something: {:?}", rec.ev)));
                            break;
                        }
                    }
                }
            }
        }
    }
    f
}

pub fn scenarios(tier: Tier) -> Vec<Scenario> {
    let mut v = vec![];
    // racing family: producers race one stop(); afterwards every entry point is probed
    // variant: 0 stop, 1 close+stop, 2 stop twice, 3 like 0 with the producers going through the
    // Dispatcher interface (Dispatcher::dispatch on the handle)
    let mut add_race = |np: u32, k: u32, cap: usize, pol: Pol, with_chan: bool, variant: u8, bound: u32| {
        let mut prog = Program::new(StoreSpec::new(1, cap, pol));
        prog = producers(prog, np, k, |_, id| if variant == 3 { Op::DispatchVia(Act::new(id)) } else { Op::Dispatch(Act::new(id)) });
        let mut main = vec![Op::AddSub { id: 1, gated: false, reads: false }];
        if with_chan {
            main.push(Op::Subscribed { id: 2, cap: 1, pol: Pol::Block, gated: false, reads: false });
        }
        main.push(Op::SpawnAll);
        match variant {
            0 | 3 => main.push(Op::Stop),
            1 => main.extend([Op::Close, Op::Stop]),
            _ => main.extend([Op::Stop, Op::Stop]),
        }
        main.extend([
            Op::GetState(1),
            Op::Dispatch(Act::new(901)),
            Op::DispatchDyn(Act::new(902)),
            Op::DispatchVia(Act::new(903)),
            Op::JoinAll,
            Op::Stop,
            Op::GetState(2),
        ]);
        prog = prog.main(main);
        let name = format!("C04/race/P{}k{}cap{}{}{}v{}", np, k, cap, pol.s(), if with_chan { "+chan" } else { "" }, variant);
        let direct = vec![1u32];
        let chan = if with_chan { vec![2u32] } else { vec![] };
        v.push(scn(name, prog, bound, opts_elide(), move |r, _| check(r, pol, &direct, &chan)));
    };
    match tier {
        Tier::Quick => {
            for pol in Pol::ALL {
                add_race(1, 2, 1, pol, false, 0, 2);
                add_race(2, 1, 1, pol, false, 0, 2);
            }
            add_race(1, 2, 1, Pol::Block, true, 0, 2);
            add_race(2, 1, 2, Pol::Block, true, 1, 2);
            add_race(1, 2, 2, Pol::Block, false, 2, 2);
            add_race(2, 1, 1, Pol::Oldest, true, 0, 2);
            add_race(1, 3, 1, Pol::Block, false, 3, 2);
        }
        Tier::Thorough => {
            for pol in Pol::ALL {
                add_race(1, 3, 1, pol, false, 3, 3);
                add_race(2, 2, 1, pol, false, 3, 2);
                for &(np, k) in &[(1u32, 1u32), (1, 2), (2, 1), (2, 2), (3, 1)] {
                    for &cap in &[1usize, 2] {
                        for &ch in &[false, true] {
                            for variant in 0..3u8 {
                                if np == 3 && (variant != 0 || cap == 2) {
                                    continue;
                                }
                                let bound = if np >= 3 || (np == 2 && k == 2 && ch) { 2 } else { 3 };
                                add_race(np, k, cap, pol, ch, variant, bound);
                            }
                        }
                    }
                }
            }
        }
    }
    v
}
