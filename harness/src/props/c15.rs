//! C15 — dropping a DroppableStore is stop().  Same oracle as C04, with the drop in place of the
//! first stop() and the remaining Arc clones used concurrently and afterwards.

use super::{c04, producers, scn};
use crate::common::*;
use crate::prog::{Op, Program, StoreSpec};
use crate::Tier;
use verif_rt::explore::Scenario;

pub fn scenarios(tier: Tier) -> Vec<Scenario> {
    let mut v = vec![];
    let mut add_x = |np: u32, k: u32, cap: usize, pol: Pol, with_chan: bool, reader: bool, iter_clone: bool, bound: u32| {
        let mut prog = producers(Program::new(StoreSpec::new(1, cap, pol)), np, k, |_, id| Op::Dispatch(Act::new(id)));
        if reader {
            // an outstanding clone used by another thread while the wrapper is dropped
            prog = prog.thread("clone-user", vec![Op::GetState(50), Op::DispatchVia(Act::new(800)), Op::GetState(51)]);
        }
        if iter_clone {
            // ... or used to create (and drop) a state iterator
            prog = prog.thread("clone-iter", vec![Op::IterOpen(40), Op::IterClose(40)]);
        }
        prog.droppable = true;
        let mut main = vec![Op::AddSub { id: 1, gated: false, reads: false }];
        if with_chan {
            main.push(Op::Subscribed { id: 2, cap: 1, pol: Pol::Block, gated: false, reads: false });
        }
        main.extend([
            Op::SpawnAll,
            Op::DropDroppable,
            Op::GetState(1),
            Op::Dispatch(Act::new(901)),
            Op::DispatchDyn(Act::new(902)),
            Op::DispatchVia(Act::new(903)),
            Op::JoinAll,
            Op::GetState(2),
        ]);
        prog = prog.main(main);
        let direct = vec![1u32];
        let chan = if with_chan { vec![2u32] } else { vec![] };
        v.push(scn(
            format!("C15/P{}k{}cap{}{}{}{}", np, k, cap, pol.s(), if with_chan { "+chan" } else { "" }, if reader { "+clone" } else if iter_clone { "+iter" } else { "" }),
            prog,
            bound,
            opts_elide(),
            move |r, _| c04::check(r, pol, &direct, &chan),
        ));
    };
    add_x(1, 2, 2, Pol::Block, false, false, true, 2);
    add_x(1, 3, 1, Pol::Block, false, false, true, 2);
    if tier == Tier::Thorough {
        add_x(1, 2, 1, Pol::Block, false, false, true, 3);
        add_x(2, 1, 2, Pol::Block, true, false, true, 2);
        add_x(1, 2, 1, Pol::Oldest, false, false, true, 3);
    }
    let mut add = |np: u32, k: u32, cap: usize, pol: Pol, with_chan: bool, reader: bool, bound: u32| add_x(np, k, cap, pol, with_chan, reader, false, bound);
    match tier {
        Tier::Quick => {
            add(1, 2, 1, Pol::Block, false, false, 2);
            add(2, 1, 1, Pol::Block, true, false, 2);
            add(1, 1, 2, Pol::Block, false, true, 2);
            add(1, 2, 1, Pol::Oldest, false, false, 2);
            add(1, 2, 1, Pol::Latest, false, false, 2);
        }
        Tier::Thorough => {
            for pol in Pol::ALL {
                for &(np, k) in &[(1u32, 1u32), (1, 2), (2, 1), (2, 2)] {
                    for &cap in &[1usize, 2] {
                        for ch in [false, true] {
                            for reader in [false, true] {
                                let heavy = (np == 2 && k == 2) || (np == 2 && reader) || (ch && reader);
                                let very = np == 2 && ch && reader;
                                add(np, k, cap, pol, ch, reader, if very { 1 } else if heavy { 2 } else { 3 });
                            }
                        }
                    }
                }
            }
        }
    }
    v
}
