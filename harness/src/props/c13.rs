//! C13 — the public API never deadlocks under concurrent use.
//! Programs = every multiset of client roles from a fixed alphabet; main always stops the store.

use super::scn;
use crate::common::*;
use crate::oracle::*;
use crate::prog::{Op, Program, StoreSpec};
use crate::Tier;
use verif_rt::core::ExecResult;
use verif_rt::explore::{Finding, Scenario};

pub const ROLES: [&str; 16] = [
    "dispatch2",
    "sub+unsub",
    "selector+unsub",
    "chanblock+unsub",
    "chanoldest",
    "read",
    "iter-all",
    "iter-1-drop",
    "iter-drop",
    "stop",
    "thunk",
    "close",
    "addreducer+dispatch",
    "chanlatest+unsub",
    "dispatch-effect-action",
    "two-iters",
];

/// ops of role `role` placed in thread slot `slot` (ids are made unique per slot)
pub fn role_ops(role: usize, slot: u32) -> Vec<Op> {
    let b = 10 * (slot + 1);
    match role {
        0 => vec![Op::Dispatch(Act::new(100 * (slot + 1))), Op::Dispatch(Act::new(100 * (slot + 1) + 1))],
        1 => vec![Op::AddSub { id: b, gated: false, reads: true }, Op::Unsub(b)],
        2 => vec![Op::AddSelector { id: b + 1 }, Op::Unsub(b + 1)],
        3 => vec![Op::Subscribed { id: b + 2, cap: 1, pol: Pol::Block, gated: false, reads: true }, Op::Unsub(b + 2)],
        4 => vec![Op::Subscribed { id: b + 3, cap: 1, pol: Pol::Oldest, gated: false, reads: true }],
        5 => vec![Op::GetState(b as i64), Op::GetMetrics(b as i64)],
        6 => vec![Op::Iter { id: b + 4, take: None, extra: 0, signal: false }],
        7 => vec![Op::Iter { id: b + 5, take: Some(1), extra: 0, signal: false }],
        8 => vec![Op::Iter { id: b + 6, take: Some(0), extra: 0, signal: false }],
        9 => vec![Op::Stop],
        10 => vec![Op::ClientThunk(500 + slot)],
        11 => vec![Op::Close],
        12 => vec![Op::AddReducer(1 + slot), Op::Dispatch(Act::new(100 * (slot + 1) + 50))],
        14 => vec![Op::Dispatch(Act::new(100 * (slot + 1) + 60).eff(0, EFF_ACTION)), Op::Dispatch(Act::new(100 * (slot + 1) + 61))],
        // holds one iterator while creating and dropping another, then drains the first
        15 => vec![Op::IterOpen(b + 8), Op::IterOpen(b + 9), Op::IterClose(b + 9), Op::IterNext(b + 8, 99), Op::IterClose(b + 8)],
        13 => vec![Op::Subscribed { id: b + 7, cap: 1, pol: Pol::Latest, gated: false, reads: true }, Op::Unsub(b + 7)],
        _ => unreachable!(),
    }
}

pub fn check(r: &ExecResult) -> Vec<Finding> {
    sanity_classified(r)
}

fn multisets(n: usize, k: usize) -> Vec<Vec<usize>> {
    fn rec(n: usize, k: usize, from: usize, cur: &mut Vec<usize>, out: &mut Vec<Vec<usize>>) {
        if cur.len() == k {
            out.push(cur.clone());
            return;
        }
        for i in from..n {
            cur.push(i);
            rec(n, k, i, cur, out);
            cur.pop();
        }
    }
    let mut out = vec![];
    rec(n, k, 0, &mut vec![], &mut out);
    out
}

pub fn scenarios(tier: Tier) -> Vec<Scenario> {
    let mut v = vec![];
    let mut add = |roles: &[usize], cap: usize, bound: u32| {
        let mut prog = Program::new(StoreSpec::new(1, cap, Pol::Block));
        for (slot, &role) in roles.iter().enumerate() {
            prog = prog.thread(&format!("c{}-{}", slot, ROLES[role]), role_ops(role, slot as u32));
        }
        prog = prog.main(vec![Op::SpawnAll, Op::Stop, Op::JoinAll]);
        let name = format!("C13/{}/cap{}", roles.iter().map(|r| ROLES[*r]).collect::<Vec<_>>().join("|"), cap);
        v.push(scn(name, prog, bound, opts_elide(), |r, _| check(r)));
    };
    match tier {
        Tier::Quick => {
            for ms in multisets(ROLES.len(), 2) {
                add(&ms, 1, 2);
            }
            for ms in multisets(ROLES.len(), 1) {
                add(&ms, 16, 2);
            }
        }
        Tier::Thorough => {
            for ms in multisets(ROLES.len(), 2) {
                // the producer whose action returns Effect::Action brings pool jobs: bound 2
                let b = if ms.contains(&14) { 2 } else { 3 };
                add(&ms, 1, b);
                add(&ms, 16, b);
            }
            for ms in multisets(ROLES.len(), 3) {
                // roles that bring their own threads (channeled delivery, pool jobs) or can end
                // in a known hang make the tree wide: two or more of them -> bound 1
                if ms.contains(&14) {
                    continue; // covered in pairs
                }
                let heavy = ms.iter().filter(|r| matches!(**r, 3 | 4 | 6 | 7 | 8 | 10 | 13 | 15)).count();
                // three channeled subscribers bring three delivery threads: hand-over orders only
                let chan = ms.iter().filter(|r| matches!(**r, 3 | 4 | 13)).count();
                add(&ms, 1, if chan == 3 { 0 } else if heavy >= 2 { 1 } else { 2 });
            }
            for ms in multisets(ROLES.len(), 4) {
                // four clients: non-preemptive schedules only (every order in which blocked or
                // finished tasks hand over), and only programs that dispatch
                if ms.contains(&0) && !ms.iter().any(|r| *r >= 11) {
                    add(&ms, 1, 0);
                }
            }
        }
    }
    v
}
