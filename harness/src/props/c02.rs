//! C02 — dispatch order is preserved: per-thread FIFO and real-time order.

use super::scn;
use crate::common::*;
use crate::oracle::*;
use crate::prog::{Op, Program, StoreSpec};
use crate::Tier;
use verif_rt::core::ExecResult;
use verif_rt::explore::{Finding, Scenario};
use verif_rt::Ev;

const OPS: [&str; 3] = ["dispatch", "thunk_dispatch", "mw_dispatch"];

pub fn check(r: &ExecResult) -> Vec<Finding> {
    let mut f = sanity(r);
    let p = pipe(r);
    let pos = |a: u32| p.order.iter().position(|x| *x == a);
    // (task, call idx, ret idx, action)
    let mut calls_v: Vec<(u32, usize, usize, u32)> = vec![];
    for (i, rec) in r.log.iter().enumerate() {
        if let Ev::Call { op, a } = &rec.ev {
            if OPS.contains(op) {
                let ret = r.log[i + 1..]
                    .iter()
                    .position(|x| x.task == rec.task && matches!(&x.ev, Ev::Ret { op: o, a: b, .. } if o == op && b == a))
                    .map(|k| i + 1 + k)
                    .unwrap_or(usize::MAX);
                calls_v.push((rec.task, i, ret, *a as u32));
            }
        }
    }
    for x in &calls_v {
        for y in &calls_v {
            if x.3 == y.3 {
                continue;
            }
            let (px, py) = match (pos(x.3), pos(y.3)) {
                (Some(a), Some(b)) => (a, b),
                _ => continue, // only surviving (reduced) actions are ordered
            };
            if x.0 == y.0 && x.1 < y.1 && px > py {
                f.push(fnd("order-per-thread", format!("task t{} dispatched {} before {} but {} was reduced first", x.0, x.3, y.3, y.3)));
            }
            if x.2 < y.1 && px > py {
                f.push(fnd("order-real-time", format!("dispatch({}) returned before dispatch({}) was invoked, yet {} was reduced first", x.3, y.3, y.3)));
            }
        }
    }
    f.dedup_by(|a, b| a.sig == b.sig);
    f
}

pub fn scenarios(tier: Tier) -> Vec<Scenario> {
    let mut v = vec![];
    let mk = |entry: u8, a: Act| match entry % 3 {
        0 => Op::Dispatch(a),
        1 => Op::DispatchDyn(a),
        _ => Op::DispatchVia(a),
    };
    let mut add = |np: u32, k: u32, pol: Pol, cap: usize, rot: u8, bound: u32| {
        let mut prog = Program::new(StoreSpec::new(1, cap, pol));
        for p in 0..np {
            let ops = (0..k).map(|q| mk(p as u8 + rot, Act::new(100 * (p + 1) + q))).collect();
            prog = prog.thread(&format!("p{}", p), ops);
        }
        prog = prog.main(vec![Op::SpawnAll, Op::JoinAll, Op::Stop]);
        v.push(scn(format!("C02/P{}k{}{}cap{}rot{}", np, k, pol.s(), cap, rot), prog, bound, opts_elide(), |r, _| check(r)));
    };
    match tier {
        Tier::Quick => {
            for pol in Pol::ALL {
                add(2, 2, pol, 1, 0, 2);
                add(2, 2, pol, 2, 1, 2);
            }
            add(3, 1, Pol::Block, 1, 0, 2);
        }
        Tier::Thorough => {
            for pol in Pol::ALL {
                for cap in 1..=2usize {
                    for rot in 0..3u8 {
                        add(2, 2, pol, cap, rot, 3);
                    }
                    add(3, 2, pol, cap, 0, 2);
                    add(2, 3, pol, cap, 1, 2);
                }
            }
        }
    }
    // a full pipeline (middleware + subscriber) fed faster than it drains
    let mut add_full = |np: u32, k: u32, cap: usize, bound: u32| {
        let mut spec = StoreSpec::new(1, cap, Pol::Block);
        spec.mws = 1;
        let mut prog = Program::new(spec);
        for p in 0..np {
            prog = prog.thread(&format!("p{}", p), (0..k).map(|q| Op::Dispatch(Act::new(100 * (p + 1) + q))).collect());
        }
        prog = prog.main(vec![Op::AddSub { id: 1, gated: false, reads: false }, Op::SpawnAll, Op::JoinAll, Op::Stop]);
        v.push(scn(format!("C02/pipeline/P{}k{}cap{}", np, k, cap), prog, bound, verif_rt::RunOpts { elide: vec![ELIDE_RED, ELIDE_MW], ..Default::default() }, |r, _| check(r)));
    };
    add_full(1, 3, 1, 2);
    add_full(2, 2, 1, 1);
    if tier == Tier::Thorough {
        add_full(1, 4, 1, 3);
        add_full(1, 4, 2, 2);
        add_full(2, 2, 1, 2);
    }
    // in-context dispatchers: a thunk effect and a middleware hook dispatch children (cap 16 so
    // the in-context dispatch cannot block on its own queue)
    let mut add_ctx = |np: u32, bound: u32, with_mw: bool| {
        let mut spec = StoreSpec::new(1, 16, Pol::Block);
        if with_mw {
            spec.mws = 1;
            spec.mw_dispatch_on = Some(200);
        }
        let mut prog = Program::new(spec);
        prog = prog.thread("p0", vec![Op::Dispatch(Act::new(100).eff(0, EFF_THUNK_DISPATCH)), Op::Dispatch(Act::new(101))]);
        if np > 1 {
            prog = prog.thread("p1", vec![Op::DispatchVia(Act::new(200)), Op::DispatchDyn(Act::new(201))]);
        }
        // the thunk may still be running when stop() is called: quiesce first so the pool is idle
        prog = prog.main(vec![Op::SpawnAll, Op::JoinAll, Op::Quiesce, Op::Stop]);
        let o = if with_mw { verif_rt::RunOpts::default() } else { opts_elide() };
        v.push(scn(format!("C02/ctx/P{}mw{}", np, with_mw as u8), prog, bound, o, |r, _| check(r)));
    };
    add_ctx(1, 2, false);
    add_ctx(2, 2, true);
    if tier == Tier::Thorough {
        add_ctx(2, 3, false);
        add_ctx(2, 3, true);
    }
    v
}
