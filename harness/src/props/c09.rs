//! C09 — subscription lifecycle: notified while registered, silent after, released once.

use super::{producers, scn};
use crate::common::*;
use crate::oracle::*;
use crate::prog::{Op, Program, StoreSpec};
use crate::Tier;
use verif_rt::core::ExecResult;
use verif_rt::explore::{Finding, Scenario};

/// `unsubbed`: subscriber ids some thread unsubscribes; `kept`: ids that stay until stop;
/// `channeled`: ids (subset of either) attached with subscribed_with
pub fn check(r: &ExecResult, unsubbed: &[u32], kept: &[u32], channeled: &[u32]) -> Vec<Finding> {
    let mut f = sanity(r);
    let p = pipe(r);
    let sr = first_stop_ret(r);
    let timed_out = r.timeouts > 0;
    let expected = p.expected_stream();
    // (1) subscribers that stay are notified of everything, unaffected by others leaving
    for &s in kept {
        let got = strip(&stream(r, "notify", s));
        if got != expected {
            f.push(fnd(
                "lifecycle-kept-sub-stream",
                format!("subscriber {} stayed registered but saw [{}] instead of [{}]", s, fmt_stream(&got), fmt_stream(&expected)),
            ));
        }
    }
    // the subscribers that stay keep their registration order within each action (direct ones)
    let kept_direct: Vec<u32> = {
        let mut k: Vec<u32> = kept.iter().copied().filter(|s| !channeled.contains(s)).collect();
        k.sort();
        k
    };
    for a in &p.order {
        let mut last = 0usize;
        for &s in &kept_direct {
            if let Some(c) = cbs_of(r, "notify").find(|c| c.comp == s && c.act == *a) {
                if c.i < last {
                    f.push(fnd("lifecycle-kept-sub-order", format!("for action {} subscriber {} was called before an earlier-registered one after another subscriber had left", a, s)));
                }
                last = c.i;
            }
        }
    }
    for &s in unsubbed {
        let urets: Vec<usize> = rets(r, "unsubscribe").filter(|c| c.a as u32 == s).map(|c| c.i).collect();
        let ucalls: Vec<usize> = calls(r, "unsubscribe").filter(|c| c.a as u32 == s).map(|c| c.i).collect();
        let got = stream(r, "notify", s);
        // what it did receive is a contiguous run of the expected stream
        let g = strip(&got);
        if !g.is_empty() {
            let ok = expected.windows(g.len()).any(|w| w == &g[..]);
            if !ok {
                f.push(fnd("lifecycle-unsubbed-sub-stream", format!("subscriber {} saw [{}], not a contiguous part of [{}]", s, fmt_stream(&g), fmt_stream(&expected))));
            }
        }
        if let Some(&ur) = urets.first() {
            // (2) silence after unsubscribe() returned
            let late: Vec<&(usize, u32, Vec<u32>)> = got.iter().filter(|x| x.0 > ur).collect();
            if !late.is_empty() {
                let inflight = late.len() == 1 && p.last_reduce_idx.get(&late[0].1).map(|&i| i < ur).unwrap_or(false);
                if inflight && !channeled.contains(&s) {
                    f.push(fnd(
                        "late-notify-one-inflight",
                        format!("subscriber {} was notified of action {} after unsubscribe() had returned (the action was already past its reducers: stale subscriber snapshot)", s, late[0].1),
                    ));
                } else {
                    f.push(fnd(
                        "late-notify",
                        format!("subscriber {} received {} notification(s) after unsubscribe() had returned: actions {:?}", s, late.len(), late.iter().map(|x| x.1).collect::<Vec<_>>()),
                    ));
                }
            }
            // completeness while registered: an action whose dispatch returned before
            // unsubscribe() was invoked and which notifies... may still be in the queue: no claim.
        }
        // (4) a second unsubscribe does nothing
        if ucalls.len() >= 2 {
            let t = r.log[ucalls[1]].task;
            let end = urets.get(1).copied().unwrap_or(r.log.len());
            if cbs(r).any(|c| c.i > ucalls[1] && c.i < end && c.task == t) {
                f.push(fnd("second-unsubscribe-had-effect", format!("the second unsubscribe() of subscriber {} ran callbacks", s)));
            }
        }
    }
    // (3) released exactly once
    for &s in unsubbed.iter().chain(kept.iter()) {
        let n_total = cbs_of(r, "unsub_cb").filter(|c| c.comp == s).count();
        let n_by_stop = cbs_of(r, "unsub_cb").filter(|c| c.comp == s && c.i < sr).count();
        let is_chan = channeled.contains(&s);
        if n_total > 1 {
            f.push(fnd("on-unsubscribe-twice", format!("subscriber {} got on_unsubscribe {} times", s, n_total)));
        } else if sr != usize::MAX && !timed_out && n_by_stop == 0 {
            f.push(fnd(
                if is_chan { "chan-sub-no-on-unsubscribe" } else { "on-unsubscribe-missing" },
                format!("{} subscriber {} had not received on_unsubscribe when stop() returned (total over the run: {})", if is_chan { "channeled" } else { "direct" }, s, n_total),
            ));
        }
    }
    f.dedup_by(|a, b| a.sig == b.sig);
    f
}

pub fn scenarios(tier: Tier) -> Vec<Scenario> {
    let mut v = vec![];
    // who: which subscriber the unsubscriber thread releases (1 = direct A, 3 = channeled C, 0 none)
    let mut add_pol = |pol: Pol, np: u32, k: u32, who: u32, twice: bool, with_chan: bool, race_stop: bool, bound: u32| {
        // a third direct subscriber wherever there is no channeled one
        let three = !with_chan;
        let mut prog = producers(Program::new(StoreSpec::new(1, if pol == Pol::Block { 2 } else { 1 }, pol)), np, k, |_, id| Op::Dispatch(Act::new(id)));
        if who != 0 {
            let mut ops = vec![Op::Unsub(who)];
            if twice {
                ops.push(Op::Unsub(who));
            }
            prog = prog.thread("unsub", ops);
        }
        let mut main = vec![Op::AddSub { id: 1, gated: false, reads: false }, Op::AddSub { id: 2, gated: false, reads: false }];
        let mut kept = vec![2u32];
        let mut channeled = vec![];
        if three {
            main.push(Op::AddSub { id: 4, gated: false, reads: false });
            kept.push(4);
        }
        if with_chan {
            main.push(Op::Subscribed { id: 3, cap: 1, pol: Pol::Block, gated: false, reads: false });
            channeled.push(3);
            if who != 3 {
                kept.push(3);
            }
        }
        if who != 1 {
            kept.push(1);
        }
        main.push(Op::SpawnAll);
        if race_stop {
            main.extend([Op::Stop, Op::JoinAll]);
        } else {
            main.extend([Op::JoinAll, Op::Stop]);
        }
        prog = prog.main(main);
        let unsubbed: Vec<u32> = if who != 0 { vec![who] } else { vec![] };
        // with stop() racing the producers a rejected dispatch is fine; streams are still
        // compared against what was actually reduced
        v.push(scn(
            format!("C09/{}P{}k{}who{}{}{}{}{}", if pol == Pol::Block { "" } else { pol.s() }, np, k, who, if three { "+3rd" } else { "" }, if twice { "x2" } else { "" }, if with_chan { "+chan" } else { "" }, if race_stop { "race" } else { "" }),
            prog,
            bound,
            opts_elide(),
            move |r, _| check(r, &unsubbed, &kept, &channeled),
        ));
    };
    // shutdown of a store whose queue may be full when the shutdown marker is sent
    add_pol(Pol::Latest, 1, 2, 0, false, true, true, 2);
    add_pol(Pol::Oldest, 1, 2, 1, false, false, true, 2);
    let mut add = |np: u32, k: u32, who: u32, twice: bool, with_chan: bool, race_stop: bool, bound: u32| add_pol(Pol::Block, np, k, who, twice, with_chan, race_stop, bound);
    match tier {
        Tier::Quick => {
            add(1, 2, 1, false, false, false, 2);
            add(1, 2, 1, true, false, true, 2);
            add(1, 1, 0, false, true, false, 2);
            add(1, 2, 3, false, true, false, 2);
            add(2, 1, 1, false, false, false, 2);
        }
        Tier::Thorough => {
            for &(np, k) in &[(1u32, 1u32), (1, 2), (2, 1), (2, 2)] {
                for who in [0u32, 1, 3] {
                    for twice in [false, true] {
                        for with_chan in [false, true] {
                            for race in [false, true] {
                                if (who == 3 && !with_chan) || (who == 0 && twice) || (np == 2 && k == 2 && with_chan) {
                                    continue;
                                }
                                let bound = match (np, k, with_chan) {
                                    (1, 1, _) => 3,
                                    (1, 2, false) | (2, 1, false) => 3,
                                    (1, 2, true) => 2,
                                    (2, 1, true) => if !twice && !race { 2 } else { 1 },
                                    (_, _, false) => 2,
                                    _ => 1,
                                };
                                add(np, k, who, twice, with_chan, race, bound);
                            }
                        }
                    }
                }
            }
        }
    }
    // a stale handle: subscriber 1 leaves (and is freed), a successor of the same kind joins,
    // then the old handle is released a second time while actions flow
    let mut add_stale = |chan: bool, np: u32, nsucc: u32, bound: u32| {
        let mk = |id: u32| if chan { Op::Subscribed { id, cap: 2, pol: Pol::Block, gated: false, reads: false } } else { Op::AddSub { id, gated: false, reads: false } };
        let mut prog = producers(Program::new(StoreSpec::new(1, 2, Pol::Block)), np, 1, |_, id| Op::Dispatch(Act::new(id)));
        prog = prog.thread("stale", vec![Op::Unsub(1)]);
        prog = prog.main(vec![
            Op::AddSub { id: 2, gated: false, reads: false },
            mk(1),
            Op::Dispatch(Act::new(10)),
            Op::Quiesce,
            Op::Unsub(1),
            Op::Quiesce,
            mk(5),
            if nsucc == 2 { mk(6) } else { Op::Note("one_successor", 0) },
            Op::SpawnAll,
            Op::JoinAll,
            Op::Dispatch(Act::new(11)),
            Op::Stop,
        ]);
        let channeled: Vec<u32> = if chan { vec![1, 5, 6] } else { vec![] };
        let _ = nsucc;
        v.push(scn(format!("C09/stale-{}P{}S{}", if chan { "chan" } else { "direct" }, np, nsucc), prog, bound, opts_elide(), move |r, _| {
            let mut f = check(r, &[1], &[2], &channeled);
            // the successors joined after action 10: they see everything from there on
            let p = pipe(r);
            let expected: Vec<_> = p.expected_stream().into_iter().filter(|e| e.0 != 10).collect();
            for s in (5u32..7).take(nsucc as usize) {
                let got = strip(&stream(r, "notify", s));
                if got != expected {
                    f.push(fnd("lifecycle-kept-sub-stream", format!("subscriber {} stayed registered but saw [{}] instead of [{}]", s, fmt_stream(&got), fmt_stream(&expected))));
                }
                let n = cbs_of(r, "unsub_cb").filter(|c| c.comp == s).count();
                if n != 1 {
                    f.push(fnd("on-unsubscribe-count", format!("subscriber {} got on_unsubscribe {} times", s, n)));
                }
            }
            f
        }));
    };
    add_stale(false, 1, 2, 2);
    add_stale(true, 0, 1, 2);
    if tier == Tier::Thorough {
        add_stale(false, 2, 2, 3);
        add_stale(true, 1, 1, 2);
        add_stale(true, 0, 2, 2);
    }
    v
}
