//! C19 — store instances are independent.  Two stores in one execution; the per-store oracles of
//! C01 / C03 / C04 are evaluated on each store's projection of the log.

use super::{c01, c04, scn};
use crate::common::*;
use crate::oracle::*;
use crate::prog::{Op, Program, StoreSpec};
use crate::Tier;
use verif_rt::core::ExecResult;
use verif_rt::explore::{Finding, Scenario};
use verif_rt::{Ev, Rec};

/// store 0 uses action ids 100..199 / 900..909, store 1 uses 200..299 / 910..919
fn store_of_action(a: i64) -> usize {
    if (200..300).contains(&a) || (910..920).contains(&a) || (1200..1300).contains(&a) {
        1
    } else {
        0
    }
}

fn project(r: &ExecResult, s: usize, sub_of: &dyn Fn(u32) -> Option<usize>) -> ExecResult {
    let keep = |rec: &Rec| -> bool {
        match &rec.ev {
            Ev::Cb { kind, comp, act, .. } => match *kind {
                "unsub_cb" => sub_of(*comp) == Some(s),
                _ => store_of_action(*act as i64) == s,
            },
            Ev::Call { op, a } | Ev::Ret { op, a, .. } => match *op {
                "stop" | "close" => (*a / 10) as usize == s,
                "get_state" | "get_metrics" => (*a / 100) as usize == s,
                "dispatch" | "thunk_dispatch" | "mw_dispatch" => store_of_action(*a) == s,
                _ => false,
            },
            _ => true,
        }
    };
    ExecResult {
        log: r.log.iter().filter(|x| keep(x)).cloned().collect(),
        stuck: r.stuck.clone(),
        steps: r.steps,
        preemptions: r.preemptions,
        timeouts: r.timeouts,
        choice_points: r.choice_points,
        task_names: r.task_names.clone(),
        chans: r.chans.clone(),
        pools: r.pools.clone(),
        fatal: None,
        elision_broken: false,
    }
}

pub fn check(r: &ExecResult, prog: &Program) -> Vec<Finding> {
    let mut f = sanity(r);
    // subscriber 1 lives in store 0 (and, when shared, also in store 1 as "51")
    let sub_of = |id: u32| -> Option<usize> {
        match id {
            1 => Some(0),
            2 => Some(1),
            _ => None,
        }
    };
    for s in 0..2usize {
        let pr = project(r, s, &sub_of);
        let spec = &prog.stores[s];
        let mut fs = c01::check_fold(&pr, spec.reducers);
        let direct: Vec<u32> = if s == 0 { vec![1] } else { vec![2] };
        fs.extend(c04::check(&pr, spec.pol, &direct, &[]));
        // the subscriber registered only in this store sees exactly this store's stream
        let p = pipe(&pr);
        let got = strip(&stream(&pr, "notify", direct[0]));
        if got != p.expected_stream() {
            fs.push(fnd("sub-stream", format!("subscriber {} saw [{}] instead of [{}]", direct[0], fmt_stream(&got), fmt_stream(&p.expected_stream()))));
        }
        // metrics of this store count only its own actions
        if let Some(m) = rets(&pr, "get_metrics").last() {
            if m.st[2] != p.order.len() as u32 {
                fs.push(fnd("metric-reduced", format!("action_reduced = {} but this store reduced {} actions", m.st[2], p.order.len())));
            }
        }
        // acceptance: store 1 is stopped only after its producer finished
        if s == 1 {
            for d in rets(&pr, "dispatch") {
                if !d.ok && d.a < 900 {
                    fs.push(fnd("acceptance", format!("dispatch({}) to the second store was rejected while it was open", d.a)));
                }
            }
        }
        for mut x in fs {
            if x.sig.starts_with("stuck:") || x.sig == "timeout" || x.sig == "task-panic" || x.sig == "process-wide-state" {
                continue; // already reported once by the whole-log sanity check
            }
            x.sig = format!("store{}-{}", s, x.sig);
            x.msg = format!("store #{}: {}", s, x.msg);
            f.push(x);
        }
    }
    // a subscriber object shared by both stores: store 1's actions arrive too, each exactly once
    let shared: Vec<u32> = cbs_of(r, "notify").filter(|c| c.comp == 3).map(|c| c.act).collect();
    if prog.main.iter().any(|o| matches!(o, Op::AddSub { id: 3, .. })) {
        let p = pipe(r);
        let unsubbed_from_a = calls(r, "unsubscribe").any(|c| c.a == 3);
        let mut want: Vec<u32> = p.order.iter().copied().filter(|a| p.notifies[a]).collect();
        let mut got = shared.clone();
        if unsubbed_from_a {
            // store A's notifications may stop at the unsubscribe; store B's must all arrive
            want.retain(|a| store_of_action(*a as i64) == 1);
            got.retain(|a| store_of_action(*a as i64) == 1);
        }
        want.sort();
        got.sort();
        if want != got {
            f.push(fnd("shared-sub", format!("a subscriber registered in both stores was notified of {:?}, the two stores notified {:?}", got, want)));
        }
    }
    f.dedup_by(|a, b| a.sig == b.sig);
    f
}

/// Store A is closed and its last user handle dropped while one of its effects is still running
/// (parked on a gate); store B, which shares nothing with A, must stop without waiting for it.
fn body_orphan() {
    let gate = verif_rt::Gate::new(0);
    let mut ca = StoreCfg::new(1, 2, Pol::Block);
    ca.name = Some("a".into());
    ca.knobs = Knobs { effect_gate: Some(gate), ..Default::default() };
    let a = build_store(ca);
    let mut cb = StoreCfg::new(1, 2, Pol::Block);
    cb.name = Some("b".into());
    let b = build_store(cb);
    dispatch(&a, Act::new(100).eff(0, EFF_GATED_TASK));
    verif_rt::quiesce(); // A's effect is parked
    close(&a, 0);
    drop(a);
    dispatch(&b, Act::new(200));
    stop(&b, 10);
    get_state(&b, 101);
    note("b_stopped", 0, 0);
    gate.open(1);
    verif_rt::quiesce();
}

fn check_orphan(r: &ExecResult) -> Vec<Finding> {
    let mut f = vec![];
    if notes(r, "stale_object").next().is_some() {
        f.push(fnd("process-wide-state", "a thread-pool handle of a store from an earlier execution was used: process-wide state shared between store instances".into()));
    }
    if notes(r, "b_stopped").next().is_none() || r.stuck.iter().any(|s| s.role != verif_rt::Role::Internal) {
        f.push(fnd(
            "store-b-waits-for-store-a",
            format!("stop() of store B did not return while an effect of the unrelated, already closed store A was still running: {}", r.stuck.iter().map(|s| format!("{} {:?}", s.name, s.wait)).collect::<Vec<_>>().join("; ")),
        ));
    }
    let p = pipe(r);
    if let Some(g) = rets(r, "get_state").find(|g| g.a == 101) {
        let want = p.after.get(&200).cloned().unwrap_or_default();
        if *g.st != want {
            f.push(fnd("store1-state", format!("store B's state after its stop() is {} instead of {}", fmt_st(g.st), fmt_st(&want))));
        }
    }
    // (a timed-out pool join inside the drop of the closed store A is A's own business: its
    // Drop runs on its own reducer thread and waits for itself — not compared here)
    f
}

pub fn scenarios(tier: Tier) -> Vec<Scenario> {
    let mut v = vec![];
    // end_a: how store 0 ends while store 1 is busy: 0 stop(), 1 drop(DroppableStore)
    // default_name: both stores keep the builder's default name ("store")
    let mut add_x = |same_cfg: bool, shared_sub: bool, end_a: u8, k: u32, bound: u32, default_name: bool| {
        // end_a == 2: store A keeps running, but the shared subscriber is unsubscribed from A
        let unsub_shared = end_a == 2;
        let mut a = StoreSpec::new(1, 1, Pol::Block);
        a.name = if default_name { None } else { Some("same") };
        let mut b = if same_cfg { StoreSpec::new(1, 1, Pol::Block) } else { StoreSpec::new(2, 2, Pol::Block) };
        b.name = a.name;
        let mut prog = Program::new(a);
        prog.stores.push(b);
        prog.droppable = end_a == 1;
        prog = prog.thread_on("pa", 0, (0..k).map(|q| Op::Dispatch(Act::new(100 + q))).collect());
        prog = prog.thread_on("pb", 1, (0..k).map(|q| Op::Dispatch(Act::new(200 + q))).collect());
        let mut main = vec![Op::AddSub { id: 1, gated: false, reads: false }, Op::On(1, Box::new(Op::AddSub { id: 2, gated: false, reads: false }))];
        if shared_sub {
            main.push(Op::AddSub { id: 3, gated: false, reads: false });
            main.push(Op::On(1, Box::new(Op::AddSharedSub { id: 3 })));
        }
        if unsub_shared {
            prog = prog.thread_on("ua", 0, vec![Op::Unsub(3)]);
        }
        main.push(Op::SpawnAll);
        if unsub_shared {
            main.push(Op::JoinAll);
        }
        main.push(if end_a == 1 { Op::DropDroppable } else { Op::Stop });
        main.extend([
            Op::Dispatch(Act::new(901)),
            Op::GetState(1),
            Op::GetMetrics(2),
            Op::JoinAll,
            Op::On(1, Box::new(Op::Stop)),
            Op::On(1, Box::new(Op::GetState(101))),
            Op::On(1, Box::new(Op::GetMetrics(102))),
            Op::On(1, Box::new(Op::Dispatch(Act::new(911)))),
            Op::GetState(3),
        ]);
        prog = prog.main(main);
        v.push(scn(
            format!("C19/{}{}end{}k{}{}", if same_cfg { "same" } else { "diff" }, if shared_sub { "+shared" } else { "" }, end_a, k, if default_name { "+defaultname" } else { "" }),
            prog,
            bound,
            opts_elide(),
            check,
        ));
    };
    add_x(true, false, 1, 1, 2, true);
    if tier == Tier::Thorough {
        add_x(false, false, 1, 2, 2, true);
        add_x(true, false, 0, 2, 2, true);
    }
    let mut add = |same_cfg: bool, shared_sub: bool, end_a: u8, k: u32, bound: u32| add_x(same_cfg, shared_sub, end_a, k, bound, false);
    match tier {
        Tier::Quick => {
            add(true, true, 0, 1, 2);
            add(true, true, 2, 1, 1);
            add(false, false, 1, 2, 1);
            add(true, false, 0, 2, 1);
        }
        Tier::Thorough => {
            for same in [true, false] {
                for shared in [false, true] {
                    for end_a in 0..=1u8 {
                        add(same, shared, end_a, 1, 3);
                        add(same, shared, end_a, 2, 2);
                    }
                    if shared {
                        add(same, shared, 2, 1, 2);
                        add(same, shared, 2, 2, 1);
                    }
                }
            }
        }
    }
    // a subscriber of store A forwards A's actions into store B from A's reducer context while
    // B's own producer keeps B's small queue busy
    let mut add_fwd = |k: u32, bound: u32| {
        let mut a = StoreSpec::new(1, 2, Pol::Block);
        a.name = Some("same");
        let mut b = StoreSpec::new(1, 1, Pol::Block);
        b.name = Some("same");
        let mut prog = Program::new(a);
        prog.stores.push(b);
        prog = prog.thread_on("pa", 0, (0..k).map(|q| Op::Dispatch(Act::new(100 + q))).collect());
        prog = prog.thread_on("pb", 1, (0..k).map(|q| Op::Dispatch(Act::new(200 + q))).collect());
        prog = prog.main(vec![
            Op::AddSub { id: 1, gated: false, reads: false },
            Op::On(1, Box::new(Op::AddSub { id: 2, gated: false, reads: false })),
            Op::AddForwardSub { id: 4, to: 1, off: 150 },
            Op::SpawnAll,
            Op::JoinAll,
            Op::Stop,
            Op::GetState(1),
            Op::GetMetrics(2),
            Op::On(1, Box::new(Op::Stop)),
            Op::On(1, Box::new(Op::GetState(101))),
            Op::On(1, Box::new(Op::GetMetrics(102))),
        ]);
        v.push(scn(format!("C19/forward/k{}", k), prog, bound, opts_elide(), check));
    };
    add_fwd(1, 2);
    if tier == Tier::Thorough {
        add_fwd(2, 2);
        add_fwd(1, 3);
    }
    // thunks must get a dispatcher for their own store: each store's action returns a thunk that
    // dispatches a child; the child must be folded into the same store's state
    {
        let mut a = StoreSpec::new(1, 2, Pol::Block);
        a.name = Some("same");
        let mut b = StoreSpec::new(1, 2, Pol::Block);
        b.name = Some("same");
        let mut prog = Program::new(a);
        prog.stores.push(b);
        prog = prog.thread_on("pa", 0, vec![Op::Dispatch(Act::new(100).eff(0, EFF_THUNK_DISPATCH))]);
        prog = prog.thread_on("pb", 1, vec![Op::Dispatch(Act::new(200).eff(0, EFF_THUNK_DISPATCH))]);
        prog = prog.main(vec![
            Op::AddSub { id: 1, gated: false, reads: false },
            Op::On(1, Box::new(Op::AddSub { id: 2, gated: false, reads: false })),
            Op::SpawnAll,
            Op::JoinAll,
            Op::Quiesce,
            Op::Stop,
            Op::GetState(1),
            Op::On(1, Box::new(Op::Stop)),
            Op::On(1, Box::new(Op::GetState(101))),
        ]);
        v.push(scn("C19/thunks".to_string(), prog, if tier == Tier::Quick { 1 } else { 2 }, opts_elide(), |r, p| {
            let mut f = check(r, p);
            let pi = pipe(r);
            for (parent, child) in [(100u32, 1100u32), (200, 1200)] {
                if pi.order.contains(&parent) && !pi.order.contains(&child) {
                    f.push(fnd("thunk-child-lost", format!("the child {} dispatched by the thunk of action {} was never reduced", child, parent)));
                }
            }
            f
        }));
    }
    v.push(Scenario {
        name: "C19/orphan".to_string(),
        params: "store A closed and dropped while its effect is parked; store B dispatch + stop".to_string(),
        opts: opts_elide(),
        bound: if tier == Tier::Quick { 2 } else { 3 },
        body: std::sync::Arc::new(body_orphan),
        check: std::sync::Arc::new(check_orphan),
    });
    v
}
