//! Scenario families, one module per property.

use crate::evidence::Extra;
use crate::prog::{self, Program};
use crate::Tier;
use std::sync::Arc;
use verif_rt::core::ExecResult;
use verif_rt::explore::{Finding, Scenario};
use verif_rt::RunOpts;

pub mod c01;
pub mod c02;
pub mod c03;
pub mod c04;
pub mod c05;
pub mod c06;
pub mod c07;
pub mod c08;
pub mod c09;
pub mod c10;
pub mod c11;
pub mod c12;
pub mod c13;
pub mod c14;
pub mod c15;
pub mod c16;
pub mod c17;
pub mod c18;
pub mod c19;

pub fn scenarios(prop: &str, tier: Tier) -> Vec<Scenario> {
    match prop {
        "C01" => c01::scenarios(tier),
        "C02" => c02::scenarios(tier),
        "C03" => c03::scenarios(tier),
        "C04" => c04::scenarios(tier),
        "C05" => c05::scenarios(tier),
        "C06" => c06::scenarios(tier),
        "C07" => c07::scenarios(tier),
        "C08" => c08::scenarios(tier),
        "C09" => c09::scenarios(tier),
        "C10" => c10::scenarios(tier),
        "C11" => c11::scenarios(tier),
        "C12" => c12::scenarios(tier),
        "C13" => c13::scenarios(tier),
        "C14" => c14::scenarios(tier),
        "C15" => c15::scenarios(tier),
        "C16" => c16::scenarios(tier, seed()),
        "C17" => c17::scenarios(tier),
        "C18" => c18::scenarios(tier),
        "C19" => c19::scenarios(tier),
        _ => vec![],
    }
}

pub fn seed() -> i64 {
    std::env::var("VERIF_SEED").ok().and_then(|s| s.parse().ok()).unwrap_or(0)
}

pub fn extra_checks(_prop: &str, _tier: Tier, _seed: i64) -> Option<Extra> {
    None
}

/// a scenario whose body interprets `prog`
pub fn scn(
    name: String,
    prog: Program,
    bound: u32,
    opts: RunOpts,
    check: impl Fn(&ExecResult, &Program) -> Vec<Finding> + Send + Sync + 'static,
) -> Scenario {
    let params = format!("{:?}", prog);
    let p1 = Arc::new(prog);
    let p2 = p1.clone();
    Scenario {
        name,
        params,
        opts,
        bound,
        body: Arc::new(move || prog::run(&p1)),
        check: Arc::new(move |r| check(r, &p2)),
    }
}

/// producer threads p0..: `k` actions each, ids 100*(p+1)+q, built by `mk`
pub fn producers(
    mut prog: Program,
    n: u32,
    k: u32,
    mk: impl Fn(u32, u32) -> crate::prog::Op,
) -> Program {
    for p in 0..n {
        let ops = (0..k).map(|q| mk(p, 100 * (p + 1) + q)).collect();
        prog = prog.thread(&format!("p{}", p), ops);
    }
    prog
}
