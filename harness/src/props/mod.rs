//! Scenario families, one module per property.

use crate::evidence::Extra;
use crate::Tier;
use verif_rt::explore::Scenario;

pub mod c01;

pub fn scenarios(prop: &str, tier: Tier) -> Vec<Scenario> {
    match prop {
        "C01" => c01::scenarios(tier),
        _ => vec![],
    }
}

pub fn extra_checks(_prop: &str, _tier: Tier, _seed: i64) -> Option<Extra> {
    None
}
