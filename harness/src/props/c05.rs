//! C05 — BlockOnFull is lossless and the queue never exceeds its capacity.

use super::{producers, scn};
use crate::common::*;
use crate::oracle::*;
use crate::prog::{Op, Program, StoreSpec};
use crate::Tier;
use verif_rt::core::ExecResult;
use verif_rt::explore::{Finding, Scenario};
use verif_rt::Ev;

const PLUG: u32 = 1;

fn dispatch_chan(r: &ExecResult) -> Option<u32> {
    dispatch_chans(r).first().copied()
}

/// common to both variants: capacity never exceeded, nothing lost
fn check_common(r: &ExecResult, cap: usize) -> Vec<Finding> {
    let mut f = sanity(r);
    let p = pipe(r);
    let ch = dispatch_chan(r);
    let mut accepted = 0i64;
    let mut taken = 0i64;
    let mut started = 0i64;
    for rec in &r.log {
        match &rec.ev {
            Ev::ChanRecv { ch: c, .. } if Some(*c) == ch => taken += 1,
            Ev::ChanSend { ch: c, len } if Some(*c) == ch && *len as usize > cap => {
                f.push(fnd("cap-queue-overfull", format!("dispatch queue held {} items, capacity {}", len, cap)));
            }
            Ev::Cb { kind: "reduce", comp: 0, .. } => started += 1,
            Ev::Ret { op: "dispatch", ok: true, .. } => {
                accepted += 1;
                if accepted - taken > cap as i64 {
                    f.push(fnd(
                        "cap-exceeded",
                        format!("{} actions accepted but only {} taken by the reducer: more than capacity {} outstanding", accepted, taken, cap),
                    ));
                }
                if accepted - started > cap as i64 + 1 {
                    f.push(fnd(
                        "cap-exceeded",
                        format!("{} actions accepted, {} started reducing: more than capacity {} + 1 in flight", accepted, started, cap),
                    ));
                }
            }
            _ => {}
        }
    }
    for d in rets(r, "dispatch") {
        let a = d.a as u32;
        let n = p.order.iter().filter(|x| **x == a).count();
        if d.ok && n != 1 {
            f.push(fnd(if n == 0 { "block-lost-action" } else { "block-duplicated-action" }, format!("action {} accepted under BlockOnFull was reduced {} times", a, n)));
        }
        if !d.ok {
            f.push(fnd("block-rejected-while-open", format!("dispatch({}) failed while the store was open", a)));
        }
    }
    f.dedup_by(|a, b| a.sig == b.sig);
    f
}

/// parked variant: the reducer is held inside reduce(); main feeds one token at a time
fn check_parked(r: &ExecResult, cap: usize, burst: usize) -> Vec<Finding> {
    let mut f = check_common(r, cap);
    // quiesce notes: #0 after the plug is parked, #1 after the burst, #2.. after each token
    let qs: Vec<usize> = notes(r, "quiesced").map(|n| n.0).collect();
    for (j, &q) in qs.iter().enumerate().skip(1) {
        let returned = rets(r, "dispatch").filter(|d| d.i < q && d.a as u32 != PLUG).count();
        let expect = burst.min(cap + (j - 1));
        if returned != expect {
            f.push(fnd(
                if returned > expect { "block-did-not-wait" } else { "block-no-wakeup" },
                format!(
                    "with the reducer parked and {} token(s) fed, {} of {} burst dispatches had returned; capacity {} allows exactly {}",
                    j - 1, returned, burst, cap, expect
                ),
            ));
            break;
        }
    }
    f
}

pub fn scenarios(tier: Tier) -> Vec<Scenario> {
    let mut v = vec![];
    // via: the producers go through the Dispatcher interface (the handle middlewares, thunks and
    // subscribers are given) instead of StoreImpl::dispatch
    let mut add_parked_x = |cap: usize, burst: usize, np: u32, via: bool, bound: u32| {
        let mut spec = StoreSpec::new(1, cap, Pol::Block);
        spec.reducer_gate = true;
        let mut prog = Program::new(spec);
        // split the burst over np producers
        let per = burst.div_ceil(np as usize);
        let mut left = burst;
        for p in 0..np {
            let n = per.min(left);
            left -= n;
            let ops = (0..n)
                .map(|q| {
                    let a = Act::new(100 * (p + 1) + q as u32);
                    if via { Op::DispatchVia(a) } else { Op::Dispatch(a) }
                })
                .collect();
            prog = prog.thread(&format!("p{}", p), ops);
        }
        let mut main = vec![Op::Dispatch(Act::new(PLUG)), Op::Quiesce, Op::SpawnAll, Op::Quiesce];
        for _ in 0..burst + 1 {
            main.extend([Op::OpenGate(0, 1), Op::Quiesce]);
        }
        main.extend([Op::JoinAll, Op::Stop]);
        prog = prog.main(main);
        v.push(scn(format!("C05/parked/cap{}n{}P{}{}", cap, burst, np, if via { "via" } else { "" }), prog, bound, opts_elide(), move |r, _| check_parked(r, cap, burst)));
    };
    add_parked_x(1, 3, 1, true, 2);
    if tier == Tier::Thorough {
        add_parked_x(2, 4, 2, true, 3);
        add_parked_x(1, 2, 1, true, 4);
    }
    let mut add_parked = |cap: usize, burst: usize, np: u32, bound: u32| add_parked_x(cap, burst, np, false, bound);
    let caps: &[usize] = if tier == Tier::Quick { &[1, 2] } else { &[1, 2, 3] };
    for &cap in caps {
        for extra in 1..=2usize {
            for np in 1..=2u32 {
                let b = if tier == Tier::Quick { 2 } else { 4 };
                add_parked(cap, cap + extra, np, b);
            }
        }
    }
    let mut add_free = |cap: usize, np: u32, k: u32, bound: u32| {
        let prog = producers(Program::new(StoreSpec::new(1, cap, Pol::Block)), np, k, |_, id| Op::Dispatch(Act::new(id)))
            .main(vec![Op::SpawnAll, Op::JoinAll, Op::Stop]);
        v.push(scn(format!("C05/free/cap{}P{}k{}", cap, np, k), prog, bound, opts_elide(), move |r, _| check_common(r, cap)));
    };
    match tier {
        Tier::Quick => {
            add_free(1, 2, 2, 2);
            add_free(2, 2, 2, 2);
            add_free(1, 1, 3, 2);
        }
        Tier::Thorough => {
            for cap in 1..=3usize {
                add_free(cap, 1, cap as u32 + 2, 3);
                add_free(cap, 2, 2, 3);
                add_free(cap, 2, 3, 2);
                add_free(cap, 3, 2, 2);
            }
        }
    }
    // stop() gives up (its timeout) while the reducer is held with a backlog behind it: what was
    // accepted is still reduced once the reducer gets going again.  The timeout is the scenario's
    // doing and not a finding here.  (n < cap: the shutdown marker still fits into the queue.)
    for (cap, n, bound) in if tier == Tier::Quick { vec![(2usize, 1u32, 2u32)] } else { vec![(2, 1, 4), (3, 2, 3), (4, 3, 2)] } {
        let mut spec = StoreSpec::new(1, cap, Pol::Block);
        spec.reducer_gate = true;
        let mut main = vec![Op::Dispatch(Act::new(PLUG)), Op::Quiesce];
        main.extend((0..n).map(|q| Op::Dispatch(Act::new(100 + q))));
        main.extend([Op::Stop, Op::OpenGate(0, 8), Op::Quiesce]);
        let prog = Program::new(spec).main(main);
        v.push(scn(format!("C05/stop-timeout/cap{}n{}", cap, n), prog, bound, opts_elide(), move |r, _| {
            let mut f = check_common(r, cap);
            f.retain(|x| x.sig != "timeout");
            f
        }));
    }
    v
}
