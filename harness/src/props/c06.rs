//! C06 — drop policies discard exactly what they name, never block, and account for it.

use super::scn;
use crate::common::*;
use crate::oracle::*;
use crate::prog::{Op, Program, StoreSpec};
use crate::Tier;
use verif_rt::core::ExecResult;
use verif_rt::explore::{Finding, Scenario};
use verif_rt::Ev;

const PLUG: u32 = 1;

fn check(r: &ExecResult, pol: Pol, cap: usize, parked: bool, via_dispatcher: bool) -> Vec<Finding> {
    let mut f = sanity(r);
    // stop() was invoked while producers were still dispatching
    let raced = rets(r, "dispatch").any(|d| d.i > first_stop_call(r));
    let p = pipe(r);
    // never waits on the queue
    for rec in &r.log {
        if let Ev::SendWouldBlock { ch } = rec.ev {
            if dispatch_chans(r).contains(&ch)
                && !matches!(r.log.iter().find(|x| x.task == rec.task), None)
                && r.task_names[rec.task as usize].1 != verif_rt::Role::Internal
            {
                f.push(fnd("drop-policy-blocked", format!("a dispatch under {} had to wait on the full queue", pol.s())));
            }
        }
    }
    // in dispatch (= acceptance) order
    let burst: Vec<(u32, bool)> = rets(r, "dispatch").filter(|d| d.a as u32 != PLUG).map(|d| (d.a as u32, d.ok)).collect();
    let reduced: Vec<u32> = p.order.iter().copied().filter(|a| *a != PLUG).collect();
    for (a, _) in &burst {
        let n = reduced.iter().filter(|x| *x == a).count();
        if n > 1 {
            f.push(fnd("drop-duplicated", format!("action {} was reduced {} times", a, n)));
        }
    }
    // survivors keep dispatch order
    let burst_ids: Vec<u32> = burst.iter().map(|b| b.0).collect();
    if !is_subsequence(&reduced, &burst_ids) {
        f.push(fnd("drop-survivor-order", format!("reduced {:?} is not an in-order subsequence of the dispatch order {:?}", reduced, burst_ids)));
    }
    // conservation against the metric (read after stop)
    if let Some(m) = rets(r, "get_metrics").last() {
        let dropped = m.st[1] as usize;
        // StoreImpl::dispatch returns Ok exactly when it found the store open
        let total = burst.iter().filter(|b| b.1 || via_dispatcher).count() + rets(r, "dispatch").filter(|d| d.a as u32 == PLUG).count();
        if p.order.len() + dropped != total {
            f.push(fnd(
                "drop-conservation",
                format!("{} actions dispatched while open, {} reduced, metric action_dropped = {}", total, p.order.len(), dropped),
            ));
        }
    }
    if parked {
        let n = burst.len();
        let expect: Vec<u32> = match pol {
            Pol::Oldest => burst_ids[n.saturating_sub(cap)..].to_vec(),
            Pol::Latest => burst_ids[..cap.min(n)].to_vec(),
            Pol::Block => unreachable!(),
        };
        if reduced != expect {
            f.push(fnd(
                "drop-wrong-victims",
                format!("burst {:?} into a parked queue of capacity {} under {}: survivors {:?}, expected {:?}", burst_ids, cap, pol.s(), reduced, expect),
            ));
        }
    }
    // return values
    for (a, ok) in &burst {
        let was_reduced = reduced.contains(a);
        if via_dispatcher {
            match pol {
                Pol::Latest => {
                    if *ok != was_reduced {
                        f.push(fnd("drop-latest-return-value", format!("Dispatcher::dispatch({}) returned {} but the action was {}", a, if *ok { "Ok" } else { "Err" }, if was_reduced { "reduced" } else { "discarded" })));
                    }
                }
                _ => {
                    if !*ok {
                        f.push(fnd("drop-oldest-return-value", format!("Dispatcher::dispatch({}) returned Err under DropOldest", a)));
                    }
                }
            }
        } else if !*ok && !raced {
            f.push(fnd("drop-rejected-while-open", format!("dispatch({}) returned Err while the store was open", a)));
        }
    }
    f
}

pub fn scenarios(tier: Tier) -> Vec<Scenario> {
    let mut v = vec![];
    // race: 0 stop after the producers, 1 stop racing them, 2 "abandon": no stop at all, the last
    // handle is released while the burst is still queued (the reducer context keeps the store
    // going; it is left waiting for actions, which is the only unfinished task allowed)
    let mut add_x = |pol: Pol, cap: usize, n: usize, np: u32, via: bool, parked: bool, race: u8, bound: u32| {
        let mut spec = StoreSpec::new(1, cap, pol);
        spec.reducer_gate = parked;
        let mut prog = Program::new(spec);
        let per = n.div_ceil(np as usize);
        let mut left = n;
        for p in 0..np {
            let k = per.min(left);
            left -= k;
            let ops = (0..k)
                .map(|q| {
                    let a = Act::new(100 * (p + 1) + q as u32);
                    if via { Op::DispatchVia(a) } else { Op::Dispatch(a) }
                })
                .collect();
            prog = prog.thread(&format!("p{}", p), ops);
        }
        let main = if parked && race == 2 {
            vec![Op::Dispatch(Act::new(PLUG)), Op::Quiesce, Op::SpawnAll, Op::JoinAll, Op::Quiesce, Op::OpenGate(0, n + 2)]
        } else if parked {
            vec![
                Op::Dispatch(Act::new(PLUG)),
                Op::Quiesce,
                Op::SpawnAll,
                Op::JoinAll,
                Op::Quiesce,
                Op::OpenGate(0, n + 2),
                Op::Quiesce,
                Op::Stop,
                Op::GetMetrics(0),
            ]
        } else if race == 2 {
            vec![Op::SpawnAll, Op::JoinAll]
        } else if race == 1 {
            vec![Op::SpawnAll, Op::Stop, Op::JoinAll, Op::GetMetrics(0)]
        } else {
            vec![Op::SpawnAll, Op::JoinAll, Op::Stop, Op::GetMetrics(0)]
        };
        prog = prog.main(main);
        v.push(scn(
            format!("C06/{}/{}cap{}n{}P{}{}{}", if parked { "parked" } else { "free" }, pol.s(), cap, n, np, if via { "via" } else { "" }, ["", "race", "abandon"][race as usize]),
            prog,
            bound,
            opts_elide(),
            move |r, _| {
                let mut f = check(r, pol, cap, parked, via);
                if race == 2 {
                    f.retain(|x| x.sig != "stuck:internal@recv(dispatch)");
                    // nobody stops the store: everything admitted is reduced by the end
                    let p = pipe(r);
                    let burst: Vec<u32> = rets(r, "dispatch").filter(|d| d.a as u32 != PLUG).map(|d| d.a as u32).collect();
                    let reduced = p.order.iter().filter(|a| **a != PLUG).count();
                    if !parked {
                        let admitted = rets(r, "dispatch").filter(|d| d.a as u32 != PLUG && d.ok).count();
                        // no eviction is possible when the burst fits, and DropLatest reports
                        // every discarded action through the Dispatcher interface
                        let exact = burst.len() <= cap || (pol == Pol::Latest && via);
                        if (exact && reduced != admitted) || (reduced == 0 && !burst.is_empty()) {
                            f.push(fnd("drop-admitted-not-reduced", format!("burst {:?}: {} admitted, but {} reduced after the last handle was released", burst, admitted, reduced)));
                        }
                    }
                }
                f
            },
        ));
    };
    let mut add = |pol: Pol, cap: usize, n: usize, np: u32, via: bool, parked: bool, bound: u32| add_x(pol, cap, n, np, via, parked, 0, bound);
    for pol in [Pol::Oldest, Pol::Latest] {
        match tier {
            Tier::Quick => {
                for &cap in &[1usize, 2] {
                    add(pol, cap, cap + 1, 1, false, true, 2);
                    add(pol, cap, cap + 2, 2, true, true, 2);
                }
                add(pol, 1, 3, 2, true, false, 2);
                add(pol, 2, 4, 2, false, false, 2);
            }
            Tier::Thorough => {
                for cap in 1..=3usize {
                    for extra in 1..=2usize {
                        for np in 1..=2u32 {
                            for via in [false, true] {
                                add(pol, cap, cap + extra, np, via, true, 4);
                                add(pol, cap, cap + extra, np, via, false, if np == 1 { 4 } else { 3 });
                            }
                        }
                    }
                }
                add(pol, 1, 3, 3, true, false, 3);
                add(pol, 2, 6, 3, false, false, 2);
                add(pol, 2, 4, 2, true, false, 4);
            }
        }
    }
    // stop() racing the producers: every dispatch that found the store open is still reduced
    // once or counted as dropped once
    for pol in [Pol::Oldest, Pol::Latest] {
        add_x(pol, 1, 3, 2, false, false, 1, 2);
        if tier == Tier::Thorough {
            add_x(pol, 2, 4, 2, false, false, 1, 3);
            add_x(pol, 1, 3, 3, false, false, 1, 2);
            add_x(pol, 1, 2, 1, false, false, 1, 4);
        }
    }
    // the last handle is released without stop() while the burst is still queued
    for pol in [Pol::Oldest, Pol::Latest] {
        add_x(pol, 2, 3, 1, true, true, 2, 2);
        add_x(pol, 2, 2, 1, true, false, 2, 2);
        if tier == Tier::Thorough {
            add_x(pol, 1, 3, 2, true, true, 2, 3);
            add_x(pol, 3, 4, 2, false, true, 2, 3);
            add_x(pol, 2, 3, 2, true, false, 2, 3);
            add_x(pol, 1, 2, 1, false, false, 2, 4);
        }
    }
    v
}
