//! C07 — one action at a time: pipeline phases are ordered and never overlap.

use super::scn;
use crate::common::*;
use crate::oracle::*;
use crate::prog::{Op, Program, StoreSpec};
use crate::Tier;
use verif_rt::core::ExecResult;
use verif_rt::explore::{Finding, Scenario};

fn phase(kind: &str) -> Option<u32> {
    match kind {
        "mw_before_reduce" => Some(0),
        "reduce" => Some(1),
        "mw_before_effect" => Some(2),
        "mw_before_dispatch" => Some(3),
        "notify" => Some(4),
        _ => None,
    }
}

/// index of the registration return for a component, usize::MAX when registered at build time
fn registered_at(r: &ExecResult, op: &'static str, id: u32, built_in: bool) -> Option<usize> {
    if built_in {
        return Some(0);
    }
    rets(r, op).find(|c| c.a as u32 == id).map(|c| c.i)
}

pub fn check(r: &ExecResult, reducers: u32, mws: u32, subs: &[u32], added: &(Vec<u32>, Vec<u32>, Vec<u32>)) -> Vec<Finding> {
    let mut f = sanity(r);
    let evs: Vec<CbEv> = cbs(r).filter(|c| phase(c.kind).is_some()).collect();
    // one reducer context
    if let Some(first) = evs.first() {
        if let Some(other) = evs.iter().find(|c| c.task != first.task) {
            f.push(fnd("ctx-not-single", format!("{} ran on task t{} while {} ran on t{}", other.kind, other.task, first.kind, first.task)));
        }
    }
    // blocks
    let mut blocks: Vec<Vec<&CbEv>> = vec![];
    for c in &evs {
        match blocks.last_mut() {
            Some(b) if b[0].act == c.act => b.push(c),
            _ => blocks.push(vec![c]),
        }
    }
    let mut seen = vec![];
    for b in &blocks {
        let a = b[0].act;
        if seen.contains(&a) {
            f.push(fnd("ctx-interleaved", format!("callbacks of action {} are split by callbacks of another action", a)));
        }
        seen.push(a);
        // phase order, and registration order within a phase: a component whose registration
        // had returned before another one's was invoked runs first (build-time components are
        // ordered by their position); overlapping registrations may land either way
        let reg = |c: &CbEv| -> (usize, usize, bool) {
            let (op, n_built): (&'static str, u32) = match c.kind {
                "reduce" => ("add_reducer", reducers),
                "notify" => ("add_subscriber", 0),
                _ => ("add_middleware", mws),
            };
            if c.comp < n_built {
                return (0, 0, true);
            }
            let call = calls(r, op).find(|x| x.a as u32 == c.comp).map(|x| x.i).unwrap_or(0);
            let ret = rets(r, op).find(|x| x.a as u32 == c.comp).map(|x| x.i).unwrap_or(usize::MAX);
            (call, ret, false)
        };
        'outer: for j in 0..b.len() {
            for i in 0..j {
                let (pi, pj) = (phase(b[i].kind).unwrap(), phase(b[j].kind).unwrap());
                let bad = if pi != pj {
                    pj < pi
                } else if b[i].comp == b[j].comp {
                    true
                } else {
                    let (ri, rj) = (reg(b[i]), reg(b[j]));
                    if ri.2 && rj.2 { b[j].comp < b[i].comp } else { rj.1 < ri.0 }
                };
                if bad {
                    f.push(fnd(
                        "ctx-phase-order",
                        format!("action {}: {}#{} ran after {}#{}", a, b[j].kind, b[j].comp, b[i].kind, b[i].comp),
                    ));
                    break 'outer;
                }
            }
        }
        // completeness
        let call = calls(r, "dispatch").find(|c| c.a as u32 == a).map(|c| c.i).unwrap_or(usize::MAX);
        let has = |kind: &str, comp: u32| b.iter().any(|c| c.kind == kind && c.comp == comp);
        // mixed Dispatch/Keep chains are left unspecified: only demand the notify phase when
        // every reducer of the chain answered Dispatch
        let notifies = b.iter().any(|c| c.kind == "reduce") && b.iter().filter(|c| c.kind == "reduce").all(|c| c.x == 0);
        let mut red: Vec<(u32, bool)> = (0..reducers).map(|i| (i, true)).collect();
        for &x in &added.0 {
            red.push((x, false));
        }
        for (id, built_in) in red {
            if let Some(at) = registered_at(r, "add_reducer", id, built_in) {
                if at < call && !has("reduce", id) {
                    f.push(fnd("ctx-reducer-left-out", format!("reducer {} was registered before dispatch({}) but did not run for it", id, a)));
                }
            }
        }
        let mut mw: Vec<(u32, bool)> = (0..mws).map(|i| (i, true)).collect();
        for &x in &added.1 {
            mw.push((x, false));
        }
        for (id, built_in) in mw {
            if let Some(at) = registered_at(r, "add_middleware", id, built_in) {
                if at < call {
                    for k in ["mw_before_reduce", "mw_before_effect"] {
                        if !has(k, id) {
                            f.push(fnd("ctx-middleware-left-out", format!("middleware {} was registered before dispatch({}) but its {} did not run", id, a, k)));
                        }
                    }
                    if notifies && !has("mw_before_dispatch", id) {
                        f.push(fnd("ctx-middleware-left-out", format!("middleware {} was registered before dispatch({}) but its before_dispatch did not run", id, a)));
                    }
                }
            }
        }
        let mut sb: Vec<(u32, bool)> = subs.iter().map(|i| (*i, false)).collect();
        for &x in &added.2 {
            sb.push((x, false));
        }
        let block_end = b.last().map(|c| c.i).unwrap_or(0);
        for (id, _) in sb {
            // a subscriber whose unsubscribe() was invoked before this action's pipeline ended
            // may or may not be part of it
            if calls(r, "unsubscribe").any(|c| c.a as u32 == id && c.i < block_end) {
                continue;
            }
            if let Some(at) = registered_at(r, "add_subscriber", id, false) {
                if at < call && notifies && !has("notify", id) {
                    f.push(fnd("ctx-subscriber-left-out", format!("subscriber {} was registered before dispatch({}) but was not notified", id, a)));
                }
            }
        }
    }
    f.dedup_by(|a, b| a.sig == b.sig);
    f
}

pub fn scenarios(tier: Tier) -> Vec<Scenario> {
    let mut v = vec![];
    // registrar: 0 none, 1 add_reducer, 2 add_middleware, 3 add_subscriber; then its own dispatch;
    // 4 swap (see below); 5/6/7: TWO registrar threads adding a reducer / middleware / subscriber
    // each at the same time, then their own dispatch
    let mut add = |np: u32, k: u32, registrar: u8, keep_second: bool, bound: u32| {
        let mut spec = StoreSpec::new(2, 2, Pol::Block);
        spec.mws = 2;
        let mut prog = Program::new(spec);
        for p in 0..np {
            let ops = (0..k)
                .map(|q| Op::Dispatch(Act::new(100 * (p + 1) + q).keep(if keep_second && q == 1 { 0b11 } else { 0 }).eff(0, if q == 0 { EFF_TASK } else { EFF_NONE })))
                .collect();
            prog = prog.thread(&format!("p{}", p), ops);
        }
        let mut added: (Vec<u32>, Vec<u32>, Vec<u32>) = (vec![], vec![], vec![]);
        let reg_op = match registrar {
            1 | 5 => {
                added.0.push(2);
                Some(Op::AddReducer(2))
            }
            2 | 6 => {
                added.1.push(2);
                Some(Op::AddMiddleware(2))
            }
            3 | 4 | 7 => {
                added.2.push(3);
                Some(Op::AddSub { id: 3, gated: false, reads: false })
            }
            _ => None,
        };
        if let Some(op) = reg_op {
            prog = prog.thread("registrar", vec![op, Op::Dispatch(Act::new(900))]);
        }
        let second = match registrar {
            5 => {
                added.0.push(3);
                Some(Op::AddReducer(3))
            }
            6 => {
                added.1.push(3);
                Some(Op::AddMiddleware(3))
            }
            7 => {
                added.2.push(4);
                Some(Op::AddSub { id: 4, gated: false, reads: false })
            }
            _ => None,
        };
        if let Some(op) = second {
            prog = prog.thread("registrar2", vec![op, Op::Dispatch(Act::new(901))]);
        }
        let mut main = vec![Op::AddSub { id: 1, gated: false, reads: false }, Op::AddSub { id: 2, gated: false, reads: false }];
        if registrar == 4 {
            // swap: after a first notification, one subscriber leaves while another joins
            // (the number of subscribers is the same before and after)
            prog = prog.thread("leaver", vec![Op::Unsub(1)]);
            main.extend([Op::Dispatch(Act::new(50)), Op::Quiesce]);
        }
        main.extend([Op::SpawnAll, Op::JoinAll, Op::Stop]);
        prog = prog.main(main);
        // run-time registration touches the reducer / middleware lists from a second task:
        // no lock elision in those scenarios
        let o = if matches!(registrar, 1 | 2 | 5 | 6) { verif_rt::RunOpts::default() } else { opts_elide() };
        v.push(scn(format!("C07/P{}k{}reg{}{}", np, k, registrar, if keep_second { "K" } else { "" }), prog, bound, o, move |r, _| check(r, 2, 2, &[1, 2], &added)));
    };
    match tier {
        Tier::Quick => {
            add(2, 1, 0, false, 2);
            add(1, 2, 1, true, 2);
            add(1, 1, 2, false, 2);
            add(1, 2, 3, true, 2);
            add(0, 0, 4, false, 2);
            add(0, 0, 5, false, 2);
            add(0, 0, 6, false, 2);
            add(0, 0, 7, false, 2);
        }
        Tier::Thorough => {
            for reg in 0..=3u8 {
                for keep in [false, true] {
                    add(1, 1, reg, keep, 3);
                    add(1, 2, reg, keep, 2);
                    add(2, 1, reg, keep, if reg == 0 { 2 } else { 1 });
                }
                if reg == 0 {
                    add(2, 2, reg, true, 1);
                }
            }
            add(1, 2, 0, true, 3);
            add(0, 0, 4, false, 3);
            add(1, 1, 4, false, 2);
            for reg in 5..=7u8 {
                add(0, 0, reg, false, 3);
                add(1, 1, reg, false, 2);
            }
        }
    }
    v
}
