//! C01 — state is the sequential fold of the reducer chain over accepted actions.

use crate::common::*;
use crate::oracle::*;
use crate::Tier;
use std::sync::Arc;
use verif_rt::core::ExecResult;
use verif_rt::explore::{Finding, Scenario};
use verif_rt::thread::spawn_client;

#[derive(Clone, Debug)]
struct P {
    producers: u32,
    k: u32,
    reducers: u32,
    /// keep mask applied to every action (bit r: reducer r answers Keep)
    keep: u8,
    /// keep mask for odd-numbered actions (mixing per action)
    keep_odd: u8,
    eff: u8,
    cap: usize,
    /// 0 none, 1 reader thread (get_state x2), 2 subscriber thread (add_subscriber)
    extra: u8,
    /// stop() races the producers instead of following their join
    race_stop: bool,
    /// shutdown shape: 0 stop(); 1 close() then stop(); 2 a second thread also calls stop()
    shutdown: u8,
}

fn body(p: P) {
    let store = build_store(StoreCfg::new(p.reducers, p.cap, Pol::Block));
    let mut hs = vec![];
    for pr in 0..p.producers {
        let s = store.clone();
        let p2 = p.clone();
        hs.push(spawn_client(&format!("p{}", pr), move || {
            for q in 0..p2.k {
                let id = 100 * (pr + 1) + q;
                let mask = if q % 2 == 1 { p2.keep_odd } else { p2.keep };
                dispatch(&s, Act::new(id).keep(mask).eff(0, p2.eff));
            }
        }));
    }
    if p.extra == 1 {
        let s = store.clone();
        hs.push(spawn_client("reader", move || {
            get_state(&s, 1);
            get_state(&s, 2);
        }));
    } else if p.extra == 2 {
        let s = store.clone();
        hs.push(spawn_client("subscriber", move || {
            let _sub = add_subscriber(&s, Arc::new(ScriptSub::new(7)), 7);
        }));
    }
    if p.shutdown == 2 {
        let s = store.clone();
        hs.push(spawn_client("stopper", move || {
            // the state seen right after *this* stop() returned must be final as well
            stop(&s, 0);
            get_state(&s, 98);
        }));
    }
    if !p.race_stop {
        let stopper: Vec<_> = hs.drain(..).collect();
        for h in stopper {
            let _ = h.join();
        }
    }
    if p.shutdown == 1 {
        close(&store, 0);
    }
    stop(&store, 0);
    get_state(&store, 99);
    for h in hs {
        let _ = h.join();
    }
}

pub fn check_fold(r: &ExecResult, reducers: u32) -> Vec<Finding> {
    let mut f = sanity(r);
    // (ii) global chain: every reduce sees the previous reduce's output
    let mut prev: Vec<u32> = vec![];
    let mut order: Vec<u32> = vec![]; // actions in reduce order
    let mut pos_in_chain = 0u32;
    let mut task = None;
    for c in cbs_of(r, "reduce") {
        if let Some(t) = task {
            if t != c.task {
                f.push(fnd("fold-two-reducer-contexts", format!("reduce ran on task t{} and t{}", t, c.task)));
            }
        }
        task = Some(c.task);
        if *c.st != prev {
            f.push(fnd(
                "fold-stale-input",
                format!(
                    "reducer {} for action {} was given {} but the previous reducer call produced {}",
                    c.comp, c.act, fmt_st(c.st), fmt_st(&prev)
                ),
            ));
        }
        if c.comp != pos_in_chain {
            f.push(fnd(
                "fold-chain-order",
                format!("reducer {} ran for action {} where reducer {} was due", c.comp, c.act, pos_in_chain),
            ));
        }
        if c.comp == 0 {
            order.push(c.act);
        } else if order.last() != Some(&c.act) {
            f.push(fnd("fold-chain-interleaved", format!("reducer {} ran for action {} while action {:?} was in progress", c.comp, c.act, order.last())));
        }
        pos_in_chain = (c.comp + 1) % reducers;
        prev = c.out.clone();
    }
    if pos_in_chain != 0 {
        f.push(fnd("fold-chain-incomplete", "the last action did not go through the whole chain".into()));
    }
    // (i)+(iii) accepted <=> reduced exactly once
    let mut accepted = vec![];
    let mut rejected = vec![];
    for c in rets(r, "dispatch").chain(rets(r, "thunk_dispatch")).chain(rets(r, "mw_dispatch")) {
        if c.ok {
            accepted.push(c.a as u32);
        } else {
            rejected.push(c.a as u32);
        }
    }
    for a in &accepted {
        let n = order.iter().filter(|x| *x == a).count();
        if n != 1 {
            f.push(fnd(
                if n == 0 { "fold-accepted-not-reduced" } else { "fold-reduced-twice" },
                format!("action {} was accepted (dispatch Ok) but reduced {} times", a, n),
            ));
        }
    }
    for a in &order {
        if !accepted.contains(a) {
            // Effect::Action children are dispatched by the store itself (no client-side Ret)
            if *a >= CHILD_OFFSET && order.contains(&(a - CHILD_OFFSET)) && !rejected.contains(a) {
                continue;
            }
            f.push(fnd("fold-reduced-not-accepted", format!("action {} was reduced but never accepted", a)));
        }
    }
    // (iv) state after stop
    // a get_state() issued by a task after a stop() of its own has returned
    for g in rets(r, "get_state") {
        let own_stop = rets(r, "stop").filter(|s| s.task == g.task).map(|s| s.i).next().unwrap_or(usize::MAX);
        if g.i > own_stop && r.timeouts == 0 && *g.st != prev {
            f.push(fnd(
                "fold-final-state",
                format!("get_state after stop() = {} but the last reduced state is {}", fmt_st(g.st), fmt_st(&prev)),
            ));
        }
    }
    f
}

pub fn scenarios(tier: Tier) -> Vec<Scenario> {
    let mut v = vec![];
    let mut add = |p: P, bound: u32| {
        let name = format!(
            "C01/P{}k{}r{}keep{:03b}odd{:03b}eff{}cap{}x{}{}{}",
            p.producers, p.k, p.reducers, p.keep, p.keep_odd, p.eff, p.cap, p.extra,
            if p.race_stop { "race" } else { "join" },
            ["", "+close", "+2stops"][p.shutdown as usize]
        );
        let pb = p.clone();
        let reducers = p.reducers;
        v.push(Scenario {
            name,
            params: format!("{:?}", p),
            opts: opts_elide(),
            bound,
            body: Arc::new(move || body(pb.clone())),
            check: Arc::new(move |r| check_fold(r, reducers)),
        });
    };
    match tier {
        Tier::Quick => {
            for &(producers, k) in &[(1u32, 2u32), (2, 1), (2, 2)] {
                for &reducers in &[1u32, 2] {
                    for &cap in &[1usize, 16] {
                        for &race in &[false, true] {
                            let keep = if reducers == 2 { 0b01 } else { 0 };
                            add(P { producers, k, reducers, keep, keep_odd: 0b10 & ((1 << reducers) - 1), eff: EFF_NONE, cap, extra: 0, race_stop: race, shutdown: 0 }, 2);
                        }
                    }
                }
            }
            add(P { producers: 1, k: 2, reducers: 3, keep: 0b010, keep_odd: 0b101, eff: EFF_TASK, cap: 1, extra: 1, race_stop: false, shutdown: 0 }, 2);
            add(P { producers: 2, k: 1, reducers: 3, keep: 0b010, keep_odd: 0, eff: EFF_TASK, cap: 1, extra: 1, race_stop: false, shutdown: 0 }, 1);
            add(P { producers: 2, k: 1, reducers: 2, keep: 0b11, keep_odd: 0, eff: EFF_NONE, cap: 2, extra: 2, race_stop: true, shutdown: 0 }, 2);
            add(P { producers: 1, k: 2, reducers: 1, keep: 1, keep_odd: 1, eff: EFF_ACTION, cap: 2, extra: 1, race_stop: false, shutdown: 0 }, 2);
            add(P { producers: 1, k: 2, reducers: 1, keep: 0, keep_odd: 1, eff: EFF_NONE, cap: 2, extra: 0, race_stop: true, shutdown: 1 }, 2);
            add(P { producers: 1, k: 2, reducers: 2, keep: 0, keep_odd: 0b11, eff: EFF_NONE, cap: 1, extra: 0, race_stop: true, shutdown: 2 }, 2);
        }
        Tier::Thorough => {
            // small programs to bound 3, every keep mask and chain length
            for &(producers, k) in &[(1u32, 2u32), (2, 1)] {
                for &reducers in &[1u32, 2, 3] {
                    for keep in 0..(1u8 << reducers) {
                        for &cap in &[1usize, 16] {
                            for &race in &[false, true] {
                                for &eff in &[EFF_NONE, EFF_TASK] {
                                    add(P { producers, k, reducers, keep, keep_odd: (!keep) & ((1 << reducers) - 1), eff, cap, extra: 0, race_stop: race, shutdown: 0 }, 3);
                                }
                            }
                        }
                    }
                }
            }
            // a reader / registrar thread next to the producers, bound 2
            for &(producers, k) in &[(1u32, 2u32), (2, 1)] {
                for &reducers in &[1u32, 2] {
                    for &extra in &[1u8, 2] {
                        for &race in &[false, true] {
                            for &cap in &[1usize, 2] {
                                add(P { producers, k, reducers, keep: 0b01, keep_odd: 0b10 & ((1 << reducers) - 1), eff: EFF_NONE, cap, extra, race_stop: race, shutdown: 0 }, 2);
                            }
                        }
                    }
                }
            }
            // larger programs, bound 2
            for &(producers, k) in &[(2u32, 2u32), (3, 1), (1, 3)] {
                for &reducers in &[1u32, 2] {
                    for &cap in &[1usize, 2] {
                        for &race in &[false, true] {
                            add(P { producers, k, reducers, keep: 0b10 & ((1 << reducers) - 1), keep_odd: 0b01, eff: EFF_NONE, cap, extra: 0, race_stop: race, shutdown: 0 }, 2);
                        }
                    }
                }
            }
            add(P { producers: 2, k: 1, reducers: 1, keep: 0, keep_odd: 1, eff: EFF_ACTION, cap: 2, extra: 0, race_stop: false, shutdown: 0 }, 2);
            add(P { producers: 1, k: 2, reducers: 1, keep: 1, keep_odd: 0, eff: EFF_ACTION, cap: 1, extra: 0, race_stop: true, shutdown: 0 }, 2);
            add(P { producers: 3, k: 2, reducers: 1, keep: 0, keep_odd: 1, eff: EFF_NONE, cap: 1, extra: 0, race_stop: true, shutdown: 0 }, 1);
            for shutdown in 1..=2u8 {
                for &(producers, k) in &[(1u32, 2u32), (2, 1)] {
                    for &race in &[false, true] {
                        add(P { producers, k, reducers: 2, keep: 0b01, keep_odd: 0b10, eff: EFF_NONE, cap: 1, extra: 0, race_stop: race, shutdown }, 3);
                    }
                }
            }
        }
    }
    v
}
