//! C14 — the state iterator yields the notification stream and then ends.

use super::{producers, scn};
use crate::common::*;
use crate::oracle::*;
use crate::prog::{Op, Program, StoreSpec};
use crate::Tier;
use verif_rt::core::ExecResult;
use verif_rt::explore::{Finding, Scenario};

const D: u32 = 1;
const IT: u32 = 5;

pub fn check(r: &ExecResult, take: Option<usize>) -> Vec<Finding> {
    let mut f = sanity_classified(r);
    let hang = !f.is_empty();
    let p = pipe(r);
    let e = p.expected_stream();
    let d = strip(&stream(r, "notify", D));
    if d != e && !hang {
        f.push(fnd("iter-direct-sub-affected", format!("direct subscriber saw [{}] instead of [{}]", fmt_stream(&d), fmt_stream(&e))));
    }
    let items = strip(&stream(r, "iter_item", IT));
    let created = rets(r, "iter").find(|c| c.a as u32 == IT).map(|c| c.i);
    let created = match created {
        Some(c) => c,
        None => return f,
    };
    // contiguous run of the notification stream
    let start = if items.is_empty() { None } else { (0..e.len()).find(|&s| e[s..].starts_with(&items)) };
    if !items.is_empty() && start.is_none() {
        f.push(fnd("iter-stream", format!("iterator yielded [{}], not a gap-free in-order run of [{}]", fmt_stream(&items), fmt_stream(&e))));
        return f;
    }
    // everything dispatched after creation is covered (nothing skipped at the front)
    let first_required = e.iter().position(|(a, _)| calls(r, "dispatch").any(|c| c.a as u32 == *a && c.i > created));
    let ended = cbs_of(r, "iter_end").any(|c| c.comp == IT);
    let consumed_all = take.is_none();
    if let Some(fr) = first_required {
        let s = start.unwrap_or(e.len());
        let taken_enough = consumed_all || items.len() >= take.unwrap_or(0);
        if s > fr && ((consumed_all && ended) || (!items.is_empty() && taken_enough)) && !hang {
            f.push(fnd("iter-missed-front", format!("action {} was dispatched after the iterator was created but the iterator started at [{}]", e[fr].0, fmt_stream(&items))));
        }
    }
    if consumed_all && ended && !hang {
        // after stop: the remaining pairs, then None, and None again
        let s = start.unwrap_or(e.len());
        let want: Vec<_> = match first_required {
            Some(fr) => e[fr.min(s)..].to_vec(),
            None => e[s.min(e.len())..].to_vec(),
        };
        if items != want {
            f.push(fnd("iter-incomplete", format!("iterator ended after [{}] but the stream from its creation on was [{}]", fmt_stream(&items), fmt_stream(&want))));
        }
    }
    if cbs_of(r, "iter_item_after_end").any(|c| c.comp == IT) {
        f.push(fnd("iter-item-after-none", "next() returned an item after it had returned None".into()));
    }
    if let Some(t) = take {
        if items.len() > t {
            f.push(fnd("iter-harness", "consumer took more than asked".into()));
        }
    }
    f.dedup_by(|a, b| a.sig == b.sig);
    f
}

pub fn scenarios(tier: Tier) -> Vec<Scenario> {
    let mut v = vec![];
    let mut add = |np: u32, k: u32, keep_odd: bool, take: Option<usize>, bound: u32| {
        let mut prog = producers(Program::new(StoreSpec::new(1, 2, Pol::Block)), np, k, |_, id| Op::Dispatch(Act::new(id).keep(if keep_odd && id % 2 == 1 { 1 } else { 0 })));
        prog = prog.thread("consumer", vec![Op::Iter { id: IT, take, extra: 1, signal: true }]);
        // iter() has returned before stop() is called (the statement's scope); stop() races the rest
        prog = prog.main(vec![Op::AddSub { id: D, gated: false, reads: false }, Op::SpawnAll, Op::PassGate(2), Op::Stop, Op::JoinAll]);
        v.push(scn(
            format!("C14/P{}k{}{}take{}", np, k, if keep_odd { "oddK" } else { "" }, take.map(|t| t.to_string()).unwrap_or("all".into())),
            prog,
            bound,
            opts_elide(),
            move |r, _| check(r, take),
        ));
    };
    match tier {
        Tier::Quick => {
            add(1, 2, false, None, 2);
            add(1, 2, true, None, 2);
            add(2, 1, false, None, 1);
            add(1, 2, false, Some(1), 2);
            add(1, 1, false, Some(0), 2);
        }
        Tier::Thorough => {
            for &(np, k) in &[(1u32, 1u32), (1, 2), (1, 3), (2, 1), (2, 2)] {
                for keep_odd in [false, true] {
                    for take in [None, Some(0), Some(1), Some(2)] {
                        let bound = match (np, k) {
                            (1, 1) => 4,
                            (1, 2) => 3,
                            (1, 3) | (2, 1) => 2,
                            _ => 1,
                        };
                        add(np, k, keep_odd, take, bound);
                    }
                }
            }
        }
    }
    // two plain subscribers registered before the iterator leave concurrently
    {
        let mut prog = producers(Program::new(StoreSpec::new(1, 2, Pol::Block)), 1, 1, |_, id| Op::Dispatch(Act::new(id)));
        prog = prog.thread("consumer", vec![Op::Iter { id: IT, take: None, extra: 1, signal: true }]);
        prog = prog.thread("u1", vec![Op::Unsub(11)]);
        prog = prog.thread("u2", vec![Op::Unsub(12)]);
        prog = prog.main(vec![
            Op::AddSub { id: 11, gated: false, reads: false },
            Op::AddSub { id: 12, gated: false, reads: false },
            Op::AddSub { id: D, gated: false, reads: false },
            Op::SpawnAll,
            Op::PassGate(2),
            Op::JoinThese(vec!["p0", "u1", "u2"]),
            Op::Stop,
            Op::JoinAll,
        ]);
        v.push(scn("C14/leavers".to_string(), prog, if tier == Tier::Quick { 1 } else { 2 }, opts_elide(), move |r, _| check(r, None)));
    }
    // the consumer touches the subscriber list (a second iterator created / dropped, a plain
    // subscriber added) while its first iterator is backed up: slot full, next notification pending
    for kind in 0..3u32 {
        for parked in [true, false] {
            if tier == Tier::Quick && !parked && kind != 0 {
                continue;
            }
            let prog = Program::new(StoreSpec::new(1, 2, Pol::Block));
            let mut cons = vec![];
            if kind == 2 {
                cons.push(Op::IterOpen(6));
            }
            cons.extend([Op::IterOpen(IT), Op::OpenGate(2, 1), Op::PassGate(1)]);
            match kind {
                0 => cons.extend([Op::IterOpen(6), Op::IterClose(6)]),
                1 => cons.push(Op::AddSub { id: 7, gated: false, reads: false }),
                _ => cons.push(Op::IterClose(6)),
            }
            cons.extend([Op::IterNext(IT, 10), Op::IterNext(IT, 1), Op::IterClose(IT)]);
            let mut main = vec![Op::AddSub { id: D, gated: false, reads: false }, Op::SpawnAll, Op::PassGate(2), Op::Dispatch(Act::new(100)), Op::Dispatch(Act::new(101))];
            if parked {
                main.push(Op::Quiesce);
            }
            main.extend([Op::OpenGate(1, 1), Op::Stop, Op::JoinAll]);
            let prog = prog.thread("consumer", cons).main(main);
            v.push(scn(
                format!("C14/backed-up/{}{}", ["second-iter", "add-sub", "drop-other"][kind as usize], if parked { "" } else { "-free" }),
                prog,
                if tier == Tier::Quick { 1 } else if parked { 3 } else { 2 },
                opts_elide(),
                move |r, _| check(r, None),
            ));
        }
    }
    v
}
