//! C10 — channeled subscribers: same stream, own thread, own backpressure policy.

use super::{producers, scn};
use crate::common::*;
use crate::oracle::*;
use crate::prog::{Op, Program, StoreSpec};
use crate::Tier;
use verif_rt::core::ExecResult;
use verif_rt::explore::{Finding, Scenario};
use verif_rt::{Ev, Role};

const D: u32 = 1; // direct subscriber registered at the same point
const C: u32 = 2; // the channeled subscriber

/// end: how the subscription ends — 0 stop() only, 1 unsubscribe() by a thread then stop(),
/// 2 unsubscribe() by a thread racing stop(), 3 stop() only, but the subscriber is attached by a
/// thread racing stop() (and the producers)
pub fn check(r: &ExecResult, pol: Pol, gated: bool, end: u8) -> Vec<Finding> {
    let mut f = sanity(r);
    let p = pipe(r);
    let d = strip(&stream(r, "notify", D));
    let cs = stream(r, "notify", C);
    let c = strip(&cs);
    // own thread
    let tasks: Vec<u32> = cbs_of(r, "notify").filter(|x| x.comp == C).map(|x| x.task).collect();
    if let Some(&t0) = tasks.first() {
        if tasks.iter().any(|t| *t != t0) {
            f.push(fnd("chan-several-threads", "the channeled subscriber was called on more than one thread".into()));
        }
        if Some(t0) == p.reducer_task {
            f.push(fnd("chan-called-in-reducer-context", "the channeled subscriber was called in the reducer context".into()));
        }
        if r.task_names[t0 as usize].1 != Role::Internal {
            f.push(fnd("chan-called-on-client-thread", format!("the channeled subscriber was called on client task {}", r.task_names[t0 as usize].0)));
        }
    }
    // direct subscriber is unaffected
    if d != p.expected_stream() {
        f.push(fnd("chan-direct-sub-affected", format!("direct subscriber saw [{}] instead of [{}]", fmt_stream(&d), fmt_stream(&p.expected_stream()))));
    }
    // the stream
    let ended_by_unsub = end == 1 || end == 2;
    match pol {
        Pol::Block => {
            if end == 3 {
                // joined late: a gap-free run of the direct stream that reaches its end
                if !(c.len() <= d.len() && d[d.len() - c.len()..] == c[..]) {
                    f.push(fnd("chan-block-stream", format!("channeled(Block), attached while the store was running, saw [{}], not a tail of the direct stream [{}]", fmt_stream(&c), fmt_stream(&d))));
                }
            } else if ended_by_unsub {
                if !(c.len() <= d.len() && d[..c.len()] == c[..]) {
                    f.push(fnd("chan-block-stream", format!("channeled(Block) saw [{}], not a prefix of the direct stream [{}]", fmt_stream(&c), fmt_stream(&d))));
                }
            } else if c != d {
                f.push(fnd("chan-block-stream", format!("channeled(Block) saw [{}] but a direct subscriber saw [{}]", fmt_stream(&c), fmt_stream(&d))));
            }
        }
        _ => {
            if !is_subsequence(&c, &d) {
                f.push(fnd("chan-drop-stream", format!("channeled({}) saw [{}], not an in-order subsequence of [{}]", pol.s(), fmt_stream(&c), fmt_stream(&d))));
            }
            if pol == Pol::Oldest && !ended_by_unsub && end != 3 && r.timeouts == 0 {
                if let Some(last) = d.last() {
                    if c.last() != Some(last) {
                        f.push(fnd("chan-oldest-newest-lost", format!("under DropOldest the newest notification (action {}) was not delivered; delivered [{}]", last.0, fmt_stream(&c))));
                    }
                }
            }
        }
    }
    // flush: when unsubscribe()/stop() returns, everything accepted into its channel and not
    // displaced has been delivered, and nothing is delivered afterwards
    // the subscriber's queue = what its delivery thread reads from (type names are not relied on)
    let subch: Vec<u32> = match tasks.first() {
        Some(&t) => chans_received_by(r, t),
        None => r.chans.iter().enumerate().filter(|(_, m)| elem_kind(m.elem) == "subch").map(|(i, _)| i as u32).collect(),
    };
    let mut ends: Vec<(usize, &str)> = vec![];
    if ended_by_unsub {
        if let Some(i) = rets(r, "unsubscribe").filter(|x| x.a as u32 == C).map(|x| x.i).next() {
            ends.push((i, "unsubscribe()"));
        }
    }
    if end != 1 {
        if let Some(i) = rets(r, "stop").map(|x| x.i).next() {
            ends.push((i, "stop()"));
        }
    }
    for (e, what) in ends {
        if !timeout_before(r, e) {
            let consumer = tasks.first().copied();
            let mut accepted = 0i64;
            let mut displaced = 0i64;
            for rec in r.log.iter().take(e) {
                match rec.ev {
                    Ev::ChanSend { ch, .. } if subch.contains(&ch) => accepted += 1,
                    Ev::ChanRecv { ch, .. } if subch.contains(&ch) && Some(rec.task) != consumer && r.task_names[rec.task as usize].1 != Role::Internal => displaced += 1,
                    Ev::ChanRecv { ch, .. } if subch.contains(&ch) && Some(rec.task) == p.reducer_task => displaced += 1,
                    _ => {}
                }
            }
            let delivered_before = cs.iter().filter(|x| x.0 < e).count() as i64;
            if delivered_before != accepted - displaced {
                f.push(fnd(
                    "chan-not-flushed",
                    format!("{} notifications were queued for the channeled subscriber ({} displaced) but only {} had been delivered when {} returned", accepted, displaced, delivered_before, what),
                ));
            }
            if cs.iter().any(|x| x.0 > e) {
                f.push(fnd("chan-delivery-after-end", format!("the channeled subscriber was called after {} had returned", what)));
            }
        }
    }
    // a stalled subscriber with a drop policy never stalls reducing
    if gated && pol != Pol::Block {
        if let Some((q, _, _)) = notes(r, "quiesced").next() {
            let accepted: Vec<u32> = rets(r, "dispatch").filter(|x| x.ok && x.i < q).map(|x| x.a as u32).collect();
            for a in accepted {
                if p.last_reduce_idx.get(&a).map(|&i| i > q).unwrap_or(true) {
                    f.push(fnd("chan-stalled-sub-stalls-reducer", format!("with the channeled({}) subscriber stalled, action {} was not reduced", pol.s(), a)));
                    break;
                }
            }
        }
    }
    f.dedup_by(|a, b| a.sig == b.sig);
    f
}

pub fn scenarios(tier: Tier) -> Vec<Scenario> {
    let mut v = vec![];
    let mut add = |cap: usize, pol: Pol, np: u32, k: u32, gated: bool, end: u8, bound: u32| {
        let mut prog = producers(Program::new(StoreSpec::new(1, 4, Pol::Block)), np, k, |_, id| Op::Dispatch(Act::new(id)));
        if end == 1 || end == 2 {
            prog = prog.thread("unsub", vec![Op::Unsub(C)]);
        }
        if end == 3 {
            prog = prog.thread("joiner", vec![Op::Subscribed { id: C, cap, pol, gated, reads: false }]);
        }
        let mut main = vec![Op::AddSub { id: D, gated: false, reads: false }];
        if end != 3 {
            main.push(Op::Subscribed { id: C, cap, pol, gated, reads: false });
        }
        main.push(Op::SpawnAll);
        if gated {
            // let everything that can happen happen while the subscriber is parked, then release it
            main.extend([Op::Quiesce, Op::OpenGate(2, 64)]);
        }
        if end >= 2 {
            main.extend([Op::Stop, Op::JoinAll]);
        } else {
            main.extend([Op::JoinAll, Op::Stop]);
        }
        prog = prog.main(main);
        v.push(scn(
            format!("C10/cap{}{}P{}k{}{}end{}", cap, pol.s(), np, k, if gated { "gated" } else { "" }, end),
            prog,
            bound,
            opts_elide(),
            move |r, _| check(r, pol, gated, end),
        ));
    };
    match tier {
        Tier::Quick => {
            for pol in Pol::ALL {
                add(1, pol, 1, 2, false, 0, 2);
                add(1, pol, 1, 3, true, 0, 2);
                add(1, pol, 1, 2, false, 1, 2);
                add(1, pol, 1, 2, false, 2, 2);
            }
            add(2, Pol::Oldest, 2, 1, false, 0, 2);
            add(1, Pol::Block, 1, 2, false, 3, 2);
            add(1, Pol::Oldest, 1, 1, false, 3, 2);
        }
        Tier::Thorough => {
            for pol in Pol::ALL {
                add(1, pol, 1, 1, false, 3, 4);
                add(1, pol, 1, 2, false, 3, 3);
                add(2, pol, 2, 1, false, 3, 2);
                for cap in 1..=2usize {
                    for &(np, k) in &[(1u32, 1u32), (1, 2), (1, 3), (2, 1), (2, 2)] {
                        for gated in [false, true] {
                            for end in 0..=2u8 {
                                if (gated && end >= 1) || (np == 2 && k == 2 && (end != 0 || cap == 2)) {
                                    continue;
                                }
                                let bound = match (np, k) {
                                    (1, 1) => 4,
                                    (1, 2) => 3,
                                    (1, 3) => 2,
                                    _ => 1,
                                };
                                add(cap, pol, np, k, gated, end, bound);
                            }
                        }
                    }
                }
            }
        }
    }
    v
}
