//! Known-findings file, evidence writer, replay artefacts, verdict/exit code.

use crate::Tier;
use serde_json::{json, Value};
use verif_rt::explore::{Report, Violation};

pub struct Known {
    pub id: String,
    pub signature: String,
    pub what: String,
}
impl Known {
    pub fn matches(&self, sig: &str) -> bool {
        if let Some(p) = self.signature.strip_suffix('*') {
            sig.starts_with(p)
        } else {
            sig == self.signature
        }
    }
}

pub fn load_known(prop: &str) -> Vec<Known> {
    let path = "/verif/known_findings.json";
    let txt = match std::fs::read_to_string(path) {
        Ok(t) => t,
        Err(_) => return vec![],
    };
    let v: Value = match serde_json::from_str(&txt) {
        Ok(v) => v,
        Err(e) => {
            eprintln!("machinery error: {} is not valid JSON: {}", path, e);
            std::process::exit(2);
        }
    };
    let mut out = vec![];
    if let Some(a) = v["findings"].as_array() {
        for f in a {
            if f["property"].as_str() == Some(prop) && f["status"].as_str() == Some("known") {
                out.push(Known {
                    id: f["id"].as_str().unwrap_or("").to_string(),
                    signature: f["signature"].as_str().unwrap_or("").to_string(),
                    what: f["what"].as_str().unwrap_or("").to_string(),
                });
            }
        }
    }
    out
}

/// results of property-specific exhaustive checks that are not schedule explorations
#[derive(Default)]
pub struct Extra {
    pub evaluations: u64,
    pub states: u64,
    pub transitions: u64,
    pub traces_validated: u64,
    pub distinct: u64,
    pub violations: Vec<Violation>,
    pub samples: Vec<Value>,
    pub notes: Vec<String>,
    pub exhaustive: bool,
    pub fatal: Option<String>,
}

pub fn finish(
    prop: &str,
    tier: Tier,
    seed: i64,
    n_scn: usize,
    rep: &Report,
    known: &[Known],
    extra: Option<Extra>,
) -> i32 {
    let extra = extra.unwrap_or(Extra { exhaustive: true, ..Default::default() });
    let fatal = rep.fatal.clone().or(extra.fatal.clone());
    // the deepest bound per scenario carries the coverage claim; lower bounds are subsets
    let mut execs = 0u64;
    let mut steps = 0u64;
    let mut nodes = 0u64;
    let mut outcomes_nt = 0u64;
    let mut all_exhausted = true;
    let mut per = vec![];
    let mut single_outcome = vec![];
    for s in &rep.stats {
        execs += s.executions;
        steps += s.steps;
        nodes += s.nodes;
        let deepest = !rep
            .stats
            .iter()
            .any(|o| o.name == s.name && o.params == s.params && o.bound > s.bound);
        if deepest {
            outcomes_nt += s.nontrivial_outcomes;
            if !s.exhausted {
                all_exhausted = false;
            }
            if s.outcomes <= 1 && s.executions > 1 {
                single_outcome.push(format!("{} [{}]", s.name, s.params));
            }
            per.push(json!({
                "scenario": s.name, "params": s.params, "preemption_bound_completed": if s.exhausted { json!(s.bound) } else { Value::Null },
                "preemption_bound_attempted": s.bound,
                "executions": s.executions, "scheduling_steps": s.steps, "schedule_tree_nodes": s.nodes,
                "distinct_outcomes": s.outcomes, "distinct_outcomes_with_choice": s.nontrivial_outcomes,
                "executions_ending_stuck": s.stuck_executions, "timeouts_fired": s.timeouts,
                "max_preemptions_used": s.max_preemptions, "exhausted": s.exhausted, "wall_s": s.wall_s,
            }));
        }
    }
    execs += extra.evaluations;
    nodes += extra.states;
    steps += extra.transitions;

    let mut viols: Vec<&Violation> = rep.violations.iter().chain(extra.violations.iter()).collect();
    viols.sort_by_key(|v| (v.preemptions, v.choices.len()));
    let mut unknown: Vec<&Violation> = vec![];
    let mut known_seen: Vec<(String, String, u64)> = vec![];
    for v in &viols {
        if let Some(k) = known.iter().find(|k| k.matches(&v.sig)) {
            if let Some(e) = known_seen.iter_mut().find(|e| e.0 == k.id) {
                e.2 += v.count;
            } else {
                known_seen.push((k.id.clone(), k.what.clone(), v.count));
            }
        } else {
            unknown.push(v);
        }
    }

    let stopped_early = !unknown.is_empty();
    let exhaustive = all_exhausted && extra.exhaustive && rep.capped.is_none() && !stopped_early && fatal.is_none();

    // replay artefacts for unknown violations (first of each signature)
    let _ = std::fs::create_dir_all("/verif/replays");
    let mut replay_paths = vec![];
    let mut seen_sigs: Vec<&str> = vec![];
    for v in &unknown {
        if seen_sigs.contains(&v.sig.as_str()) {
            continue;
        }
        seen_sigs.push(&v.sig);
        let fname = format!(
            "/verif/replays/{}-{}-{}.json",
            prop,
            v.scenario.replace(['/', ' '], "_"),
            replay_paths.len()
        );
        let body = json!({
            "property": prop, "scenario": v.scenario, "params": v.params, "bound": v.bound,
            "preemptions": v.preemptions, "choices": v.choices, "signature": v.sig, "message": v.msg,
            "log": v.log,
        });
        let _ = std::fs::write(&fname, serde_json::to_string_pretty(&body).unwrap());
        replay_paths.push((fname, v.sig.clone(), v.msg.clone()));
    }

    let mut samples: Vec<Value> = rep
        .samples
        .iter()
        .map(|(h, l)| json!({"schedule": h, "event_log": l}))
        .collect();
    samples.extend(extra.samples.iter().cloned());
    if samples.is_empty() {
        samples.push(json!("no execution was run"));
    }

    // conformance of the third-party models with the real crates (thorough tier, run by ./check)
    let mut notes = extra.notes.clone();
    let mut conform_json = Value::Null;
    let mut traces_validated = execs;
    if let Ok(pth) = std::env::var("VERIF_CONFORM") {
        if !pth.is_empty() {
            if let Some(c) = std::fs::read_to_string(&pth).ok().and_then(|t| serde_json::from_str::<Value>(&t).ok()) {
                let n = c["channel_sequences_compared"].as_u64().unwrap_or(0) + c["store_runs_on_real_crates"].as_u64().unwrap_or(0);
                traces_validated += n;
                notes.push(format!(
                    "model conformance: {} channel operation sequences (depth {}) agreed between crossbeam and verif_rt::chan; pool scripts agreed with rusty_pool; {} whole-store scenario runs on the real crates equal the schedule-independent records of the models",
                    c["channel_sequences_compared"], c["channel_depth"], c["store_runs_on_real_crates"]
                ));
                conform_json = c;
            }
        }
    }
    if let Ok(scan) = std::env::var("VERIF_SOURCE_SCAN") {
        if !scan.trim().is_empty() {
            notes.push(format!("WARNING source scan: constructs the controlled scheduler does not intercept (per-task thread-locals, std primitives named by full path, statics) appear in /repo/src outside tests; they run unscheduled here: {}", scan.replace('\n', " | ")));
        }
    }
    if rep.elision_redone > 0 {
        notes.push(format!("{} scenario(s) were re-explored without lock elision because a second task locked an elided mutex", rep.elision_redone));
    }
    let ev = json!({
        "property_id": prop,
        "tier": tier.s(),
        "seed": seed,
        "level": "model_checking",
        "coverage": {
            "states": nodes.max(1),
            "transitions": steps.max(1),
            "traces_validated_against_impl": traces_validated,
            "evaluations": execs,
            "distinct_nontrivial": outcomes_nt + extra.distinct,
            "rule": "stateless preemption-bounded DFS over the real rs-store code on the controlled runtime: every schedule of each closed scenario program with at most b preemptions (b iterated 0..bound), plus the scenario's own data choices; states = distinct schedule-tree nodes (choice prefixes) visited; transitions = scheduling steps executed; an outcome is the hash of the harness-level event log + end state, non-trivial = seen in an execution with at least one scheduling choice; every explored trace is an execution of the implementation itself (no separate model of rs-store)",
            "samples": samples,
            "exhaustive": exhaustive,
            "scenarios": n_scn,
            "per_scenario": per,
            "caps_hit": rep.capped,
            "single_outcome_scenarios": single_outcome,
            "known_findings_seen": known_seen.iter().map(|k| json!({"id": k.0, "what": k.1, "executions": k.2})).collect::<Vec<_>>(),
            "notes": notes,
            "model_conformance": conform_json,
        },
        "assumptions": [
            "third-party behaviour is modelled by verif_rt: bounded MPMC channel (crossbeam), thread pool (rusty_pool: a job starts when submitted, job panics contained), std Mutex (poisons like std's) and threads; see DESIGN.md section 3",
            "real time is abstracted: Instant is a logical tick, elapsed() = 0, the 3 s shutdown timeout fires only when no task can run",
            "preemption-bounded: schedules needing more preemptions than the completed bound are not covered",
            "atomics are SeqCst in rs-store; they are scheduling points only in scenarios that sample metrics concurrently"
        ],
        "wall_s": rep.wall_s,
        "violations": unknown.len(),
    });
    // scripts that run the checks against a deliberately modified /repo (mutants, seeded changes)
    // redirect the evidence so that the committed files only ever describe the real tree
    let dir = std::env::var("VERIF_EVIDENCE_DIR").unwrap_or_else(|_| "/verif/evidence".to_string());
    let _ = std::fs::create_dir_all(&dir);
    let path = format!("{}/{}.json", dir, prop);
    if let Err(e) = std::fs::write(&path, serde_json::to_string_pretty(&ev).unwrap()) {
        eprintln!("machinery error: cannot write {}: {}", path, e);
        return 2;
    }

    println!(
        "{} tier={} scenarios={} executions={} steps={} tree_nodes={} outcomes(nontrivial)={} exhaustive={} wall={:.1}s",
        prop, tier.s(), n_scn, execs, steps, nodes, outcomes_nt + extra.distinct, exhaustive, rep.wall_s
    );
    if let Some(c) = &rep.capped {
        let short: String = c.chars().take(160).collect();
        println!("CAP (not exhaustive): {}", short);
    }
    for n in &notes {
        println!("note: {}", n);
    }
    if let Some(f) = fatal {
        eprintln!("MACHINERY-ERROR: {}", f);
        return 2;
    }
    for k in &known_seen {
        println!("KNOWN-FINDING: property={} {} {} (in {} executions)", prop, k.0, k.1, k.2);
    }
    if !replay_paths.is_empty() {
        for (p, sig, msg) in &replay_paths {
            println!("violation [{}]: {}", sig, msg);
            println!("VIOLATION property={} replay={}", prop, p);
        }
        return 1;
    }
    0
}

// ---------------------------------------------------------------------------------------------
// chunked runs: a child process writes its Report as JSON, the parent merges them

pub fn write_partial(path: &str, rep: &Report) -> i32 {
    let v = json!({
        "stats": rep.stats.iter().map(|s| json!({
            "name": s.name, "params": s.params, "bound": s.bound, "executions": s.executions, "steps": s.steps,
            "nodes": s.nodes, "outcomes": s.outcomes, "nontrivial_outcomes": s.nontrivial_outcomes,
            "stuck_executions": s.stuck_executions, "timeouts": s.timeouts, "max_preemptions": s.max_preemptions,
            "exhausted": s.exhausted, "wall_s": s.wall_s,
        })).collect::<Vec<_>>(),
        "violations": rep.violations.iter().map(|v| json!({
            "scenario": v.scenario, "params": v.params, "bound": v.bound, "preemptions": v.preemptions,
            "choices": v.choices, "sig": v.sig, "msg": v.msg, "log": v.log, "count": v.count,
        })).collect::<Vec<_>>(),
        "fatal": rep.fatal, "capped": rep.capped, "elision_redone": rep.elision_redone,
        "samples": rep.samples.iter().map(|(h, l)| json!([h, l])).collect::<Vec<_>>(),
    });
    match std::fs::write(path, serde_json::to_string(&v).unwrap()) {
        Ok(()) => 0,
        Err(_) => 2,
    }
}

pub fn merge_partial(into: &mut Report, p: &Value) {
    use verif_rt::explore::ScenarioStats;
    for s in p["stats"].as_array().cloned().unwrap_or_default() {
        into.stats.push(ScenarioStats {
            name: s["name"].as_str().unwrap_or("").to_string(),
            params: s["params"].as_str().unwrap_or("").to_string(),
            bound: s["bound"].as_u64().unwrap_or(0) as u32,
            executions: s["executions"].as_u64().unwrap_or(0),
            steps: s["steps"].as_u64().unwrap_or(0),
            nodes: s["nodes"].as_u64().unwrap_or(0),
            outcomes: s["outcomes"].as_u64().unwrap_or(0),
            nontrivial_outcomes: s["nontrivial_outcomes"].as_u64().unwrap_or(0),
            stuck_executions: s["stuck_executions"].as_u64().unwrap_or(0),
            timeouts: s["timeouts"].as_u64().unwrap_or(0),
            max_preemptions: s["max_preemptions"].as_u64().unwrap_or(0) as u32,
            exhausted: s["exhausted"].as_bool().unwrap_or(false),
            wall_s: s["wall_s"].as_f64().unwrap_or(0.0),
        });
    }
    for v in p["violations"].as_array().cloned().unwrap_or_default() {
        into.violations.push(Violation {
            scenario: v["scenario"].as_str().unwrap_or("").to_string(),
            params: v["params"].as_str().unwrap_or("").to_string(),
            bound: v["bound"].as_u64().unwrap_or(0) as u32,
            preemptions: v["preemptions"].as_u64().unwrap_or(0) as u32,
            choices: v["choices"].as_array().map(|a| a.iter().filter_map(|x| x.as_u64().map(|n| n as u16)).collect()).unwrap_or_default(),
            sig: v["sig"].as_str().unwrap_or("").to_string(),
            msg: v["msg"].as_str().unwrap_or("").to_string(),
            log: v["log"].as_array().map(|a| a.iter().filter_map(|x| x.as_str().map(|s| s.to_string())).collect()).unwrap_or_default(),
            count: v["count"].as_u64().unwrap_or(1),
        });
    }
    if into.fatal.is_none() {
        into.fatal = p["fatal"].as_str().map(|s| s.to_string());
    }
    if into.capped.is_none() {
        into.capped = p["capped"].as_str().map(|s| s.to_string());
    }
    into.elision_redone += p["elision_redone"].as_u64().unwrap_or(0) as usize;
    if into.samples.len() < 3 {
        for s in p["samples"].as_array().cloned().unwrap_or_default() {
            if into.samples.len() < 3 {
                let h = s[0].as_str().unwrap_or("").to_string();
                let l = s[1].as_array().map(|a| a.iter().filter_map(|x| x.as_str().map(|s| s.to_string())).collect()).unwrap_or_default();
                into.samples.push((h, l));
            }
        }
    }
}
