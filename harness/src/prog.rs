//! A small interpreter for closed client programs over the public rs-store API.  A `Program` is
//! data (so families of programs can be enumerated); `run` is the body of the main task.

use crate::common::*;
use rs_store::{DroppableStore, Dispatcher, Middleware, Selector, Subscription};
use std::collections::HashMap;
use std::sync::{Arc, Mutex as StdMutex};
use verif_rt::thread::spawn_client;
use verif_rt::{log, quiesce, Ev, Gate};

#[derive(Clone, Debug, PartialEq)]
pub enum Op {
    /// StoreImpl::dispatch
    Dispatch(Act),
    /// <dyn Store>::dispatch
    DispatchDyn(Act),
    /// Dispatcher::dispatch on Arc<StoreImpl>
    DispatchVia(Act),
    GetState(i64),
    GetMetrics(i64),
    Stop,
    Close,
    /// add_subscriber(ScriptSub id); flags: gated (parks in on_notify on the sub gate), reads state
    AddSub { id: u32, gated: bool, reads: bool },
    /// a direct subscriber that reads the state and panics inside on_notify for action `on`
    AddPanicSub { id: u32, on: u32 },
    /// add the *same* subscriber object (id) to store `other` as well (C19)
    AddSharedSub { id: u32 },
    /// a subscriber of the current store that forwards each notification (action id + off) to store `to`
    AddForwardSub { id: u32, to: usize, off: u32 },
    AddSelector { id: u32 },
    Subscribed { id: u32, cap: usize, pol: Pol, gated: bool, reads: bool },
    Unsub(u32),
    /// create an iterator, take up to `take` items (None: until it ends), call next() `extra`
    /// more times after the end, then drop it
    Iter { id: u32, take: Option<usize>, extra: usize, signal: bool },
    /// the same in pieces, so that one thread can hold several iterators at a time: create,
    /// call next() up to n times (stops at None), drop
    IterOpen(u32),
    IterNext(u32, usize),
    IterClose(u32),
    /// take one token from a gate (wait for it)
    PassGate(u8),
    ClientThunk(u32),
    ClientTask(u32),
    AddReducer(u32),
    AddMiddleware(u32),
    /// gates: 0 reducer, 1 effect, 2 subscriber
    OpenGate(u8, usize),
    Quiesce,
    Note(&'static str, i64),
    SpawnAll,
    JoinAll,
    /// join only the named threads
    JoinThese(Vec<&'static str>),
    /// drop the DroppableStore wrapper held by main (C15)
    DropDroppable,
    /// run an op against store #n
    On(usize, Box<Op>),
}

#[derive(Clone, Debug)]
pub struct StoreSpec {
    pub reducers: u32,
    pub cap: usize,
    pub pol: Pol,
    /// passive (always Continue) scripted middlewares installed at build time
    pub mws: u32,
    /// (hook, mw idx, verdict) overrides for all actions
    pub verdicts: Vec<(usize, u32, Verdict)>,
    /// middleware idx that removes effect position 0 in before_effect
    pub mw_removes_effect: Option<u32>,
    /// middleware 0 dispatches a child action from before_reduce of this action id
    pub mw_dispatch_on: Option<u32>,
    pub reducer_gate: bool,
    pub reducer_gate_only: Option<u32>,
    pub name: Option<&'static str>,
    /// middleware 0 reads the store's state inside its before_reduce / before_dispatch hooks
    pub mw_reads: bool,
}

impl StoreSpec {
    pub fn new(reducers: u32, cap: usize, pol: Pol) -> StoreSpec {
        StoreSpec {
            reducers,
            cap,
            pol,
            mws: 0,
            verdicts: vec![],
            mw_removes_effect: None,
            mw_dispatch_on: None,
            reducer_gate: false,
            reducer_gate_only: None,
            name: None,
            mw_reads: false,
        }
    }
}

#[derive(Clone, Debug)]
pub struct Program {
    pub stores: Vec<StoreSpec>,
    /// wrap store 0 in a DroppableStore held by main
    pub droppable: bool,
    pub main: Vec<Op>,
    /// (name, store index, ops)
    pub threads: Vec<(String, usize, Vec<Op>)>,
}

impl Program {
    pub fn new(spec: StoreSpec) -> Program {
        Program { stores: vec![spec], droppable: false, main: vec![], threads: vec![] }
    }
    pub fn thread(mut self, name: &str, ops: Vec<Op>) -> Program {
        self.threads.push((name.to_string(), 0, ops));
        self
    }
    pub fn thread_on(mut self, name: &str, store: usize, ops: Vec<Op>) -> Program {
        self.threads.push((name.to_string(), store, ops));
        self
    }
    pub fn main(mut self, ops: Vec<Op>) -> Program {
        self.main = ops;
        self
    }
}

struct Sel;
impl Selector<St, u32> for Sel {
    fn select(&self, state: &St) -> u32 {
        state.0.last().map(|m| mark_action(*m) % 3).unwrap_or(0)
    }
}

struct Ctx {
    stores: Vec<Store>,
    subs: StdMutex<HashMap<u32, Box<dyn Subscription>>>,
    /// weak: the harness itself must not keep an unsubscribed subscriber alive
    shared_subs: StdMutex<HashMap<u32, std::sync::Weak<ScriptSub>>>,
    gates: [Gate; 3],
    droppable: StdMutex<Option<DroppableStore<St, Act>>>,
    /// the program contains AddSharedSub
    share: bool,
}

/// per-thread interpreter state
#[derive(Default)]
struct Local {
    iters: HashMap<u32, (Box<dyn Iterator<Item = (St, Act)>>, bool)>,
}

fn exec(ctx: &Arc<Ctx>, si: usize, op: &Op, local: &mut Local) {
    let store = &ctx.stores[si];
    match op {
        Op::IterOpen(id) => {
            log(Ev::Call { op: "iter", a: *id as i64 });
            let it = store.iter();
            log(Ev::Ret { op: "iter", a: *id as i64, ok: true, st: vec![] });
            local.iters.insert(*id, (Box::new(it), false));
        }
        Op::IterNext(id, n) => {
            let (it, ended) = local.iters.get_mut(id).expect("iterator");
            for _ in 0..*n {
                log(Ev::Call { op: "iter_next", a: *id as i64 });
                match it.next() {
                    Some((s, a)) => log(Ev::Cb { kind: if *ended { "iter_item_after_end" } else { "iter_item" }, comp: *id, act: a.id, st: s.0, out: vec![], x: 0 }),
                    None => {
                        log(Ev::Cb { kind: "iter_end", comp: *id, act: 0, st: vec![], out: vec![], x: *ended as i64 });
                        *ended = true;
                        break;
                    }
                }
            }
        }
        Op::IterClose(id) => {
            let (it, ended) = local.iters.remove(id).expect("iterator");
            log(Ev::Call { op: "iter_drop", a: *id as i64 });
            drop(it);
            log(Ev::Ret { op: "iter_drop", a: *id as i64, ok: ended, st: vec![] });
        }
        Op::Dispatch(a) => {
            dispatch(store, a.clone());
        }
        Op::DispatchDyn(a) => {
            let d: &dyn rs_store::Store<St, Act> = &**store;
            dispatch_dyn(d, a.clone());
        }
        Op::DispatchVia(a) => {
            dispatch_via_dispatcher(store, a.clone());
        }
        Op::GetState(t) => {
            get_state(store, *t);
        }
        Op::GetMetrics(t) => {
            log(Ev::Call { op: "get_metrics", a: *t });
            let m = store.get_metrics();
            log(Ev::Ret {
                op: "get_metrics",
                a: *t,
                ok: true,
                st: vec![
                    m.action_received as u32,
                    m.action_dropped as u32,
                    m.action_reduced as u32,
                    m.effect_issued as u32,
                    m.middleware_executed as u32,
                    m.error_occurred as u32,
                    m.state_notified as u32,
                    m.subscriber_notified as u32,
                ],
            });
        }
        Op::Stop => stop(store, 10 * si as i64),
        Op::Close => close(store, 10 * si as i64),
        Op::AddSub { id, gated, reads } => {
            let sub = Arc::new(ScriptSub {
                id: *id,
                gate: if *gated { Some(ctx.gates[2]) } else { None },
                read_from: if *reads { Some(Arc::downgrade(store)) } else { None },
                forward_to: None,
                pad: Default::default(),
                panic_on: None,
            });
            // (a Weak keeps the allocation alive too: only where the program shares subscribers)
            if ctx.share {
                ctx.shared_subs.lock().unwrap().insert(*id, Arc::downgrade(&sub));
            }
            let s = add_subscriber(store, sub, *id);
            ctx.subs.lock().unwrap().insert(*id, s);
        }
        Op::AddPanicSub { id, on } => {
            let sub = Arc::new(ScriptSub { id: *id, gate: None, read_from: Some(Arc::downgrade(store)), forward_to: None, pad: Default::default(), panic_on: Some(*on) });
            let s = add_subscriber(store, sub, *id);
            ctx.subs.lock().unwrap().insert(*id, s);
        }
        Op::AddForwardSub { id, to, off } => {
            let sub = Arc::new(ScriptSub { id: *id, gate: None, read_from: None, forward_to: Some((Arc::downgrade(&ctx.stores[*to]), *off)), pad: Default::default(), panic_on: None });
            let s = add_subscriber(store, sub, *id);
            ctx.subs.lock().unwrap().insert(*id, s);
        }
        Op::AddSharedSub { id } => {
            let sub = ctx.shared_subs.lock().unwrap().get(id).and_then(|w| w.upgrade()).expect("shared sub");
            let s = add_subscriber(store, sub, *id);
            ctx.subs.lock().unwrap().insert(*id + 50, s);
        }
        Op::AddSelector { id } => {
            let idc = *id;
            log(Ev::Call { op: "add_subscriber", a: idc as i64 });
            let s = store.subscribe_with_selector(Sel, move |v: u32, a: Act| {
                verif_rt::thread::yield_now();
                log(Ev::Cb { kind: "sel_change", comp: idc, act: a.id, st: vec![], out: vec![], x: v as i64 });
            });
            log(Ev::Ret { op: "add_subscriber", a: idc as i64, ok: true, st: vec![] });
            ctx.subs.lock().unwrap().insert(*id, s);
        }
        Op::Subscribed { id, cap, pol, gated, reads } => {
            let sub = Box::new(ScriptSub {
                id: *id,
                gate: if *gated { Some(ctx.gates[2]) } else { None },
                read_from: if *reads { Some(Arc::downgrade(store)) } else { None },
                forward_to: None,
                pad: Default::default(),
                panic_on: None,
            });
            let s = subscribed_with(store, *cap, *pol, sub, *id);
            ctx.subs.lock().unwrap().insert(*id, s);
        }
        Op::Unsub(id) => {
            // never hold the (uncontrolled) table lock across a controlled call
            let s = ctx.subs.lock().unwrap().remove(id);
            if let Some(s) = s {
                unsubscribe(&*s, *id);
                ctx.subs.lock().unwrap().insert(*id, s);
            } else {
                note("unsub_missing", *id as i64, 0);
            }
        }
        Op::PassGate(g) => {
            ctx.gates[*g as usize].pass();
            note("passed_gate", *g as i64, 0);
        }
        Op::Iter { id, take, extra, signal } => {
            log(Ev::Call { op: "iter", a: *id as i64 });
            let mut it = store.iter();
            log(Ev::Ret { op: "iter", a: *id as i64, ok: true, st: vec![] });
            if *signal {
                ctx.gates[2].open(1);
            }
            let mut n = 0usize;
            let mut ended = false;
            loop {
                if let Some(t) = take {
                    if n >= *t {
                        break;
                    }
                }
                log(Ev::Call { op: "iter_next", a: *id as i64 });
                match it.next() {
                    Some((s, a)) => {
                        log(Ev::Cb { kind: "iter_item", comp: *id, act: a.id, st: s.0, out: vec![], x: 0 });
                        n += 1;
                    }
                    None => {
                        log(Ev::Cb { kind: "iter_end", comp: *id, act: 0, st: vec![], out: vec![], x: 0 });
                        ended = true;
                        break;
                    }
                }
            }
            if ended {
                for _ in 0..*extra {
                    log(Ev::Call { op: "iter_next", a: *id as i64 });
                    match it.next() {
                        Some((s, a)) => log(Ev::Cb { kind: "iter_item_after_end", comp: *id, act: a.id, st: s.0, out: vec![], x: 0 }),
                        None => log(Ev::Cb { kind: "iter_end", comp: *id, act: 0, st: vec![], out: vec![], x: 1 }),
                    }
                }
            }
            log(Ev::Call { op: "iter_drop", a: *id as i64 });
            drop(it);
            log(Ev::Ret { op: "iter_drop", a: *id as i64, ok: ended, st: vec![] });
        }
        Op::ClientThunk(id) => {
            let idc = *id;
            log(Ev::Call { op: "dispatch_thunk", a: idc as i64 });
            Dispatcher::dispatch_thunk(
                store,
                Box::new(move |d| {
                    log(Ev::Cb { kind: "effect", comp: 9, act: idc, st: vec![], out: vec![], x: EFF_THUNK_DISPATCH as i64 });
                    let child = idc + CHILD_OFFSET;
                    log(Ev::Call { op: "thunk_dispatch", a: child as i64 });
                    let r = d.dispatch(Act::new(child));
                    log(Ev::Ret { op: "thunk_dispatch", a: child as i64, ok: r.is_ok(), st: vec![] });
                }),
            );
            log(Ev::Ret { op: "dispatch_thunk", a: idc as i64, ok: true, st: vec![] });
        }
        Op::ClientTask(id) => {
            let idc = *id;
            log(Ev::Call { op: "dispatch_task", a: idc as i64 });
            Dispatcher::dispatch_task(
                store,
                Box::new(move || {
                    log(Ev::Cb { kind: "effect", comp: 9, act: idc, st: vec![], out: vec![], x: EFF_TASK as i64 });
                }),
            );
            log(Ev::Ret { op: "dispatch_task", a: idc as i64, ok: true, st: vec![] });
        }
        Op::AddReducer(idx) => {
            log(Ev::Call { op: "add_reducer", a: *idx as i64 });
            store.add_reducer(Box::new(ScriptReducer { idx: *idx, knobs: Knobs::default() }));
            log(Ev::Ret { op: "add_reducer", a: *idx as i64, ok: true, st: vec![] });
        }
        Op::AddMiddleware(idx) => {
            log(Ev::Call { op: "add_middleware", a: *idx as i64 });
            store.add_middleware(Arc::new(ScriptMw::passive(*idx)));
            log(Ev::Ret { op: "add_middleware", a: *idx as i64, ok: true, st: vec![] });
        }
        Op::OpenGate(g, n) => {
            note("open_gate", *g as i64, *n as i64);
            ctx.gates[*g as usize].open(*n);
        }
        Op::Quiesce => {
            quiesce();
            note("quiesced", 0, 0);
        }
        Op::Note(w, a) => note(w, *a, 0),
        Op::DropDroppable => {
            let d = ctx.droppable.lock().unwrap().take();
            log(Ev::Call { op: "stop", a: 1 });
            drop(d);
            log(Ev::Ret { op: "stop", a: 1, ok: true, st: vec![] });
        }
        Op::On(i, op) => exec(ctx, *i, op, local),
        Op::SpawnAll | Op::JoinAll | Op::JoinThese(_) => unreachable!(),
    }
}

pub fn run(p: &Program) {
    let gates = [Gate::new(0), Gate::new(0), Gate::new(0)];
    let mut stores = vec![];
    for spec in &p.stores {
        let mut cfg = StoreCfg::new(spec.reducers, spec.cap, spec.pol);
        cfg.knobs = Knobs {
            reducer_gate: if spec.reducer_gate { Some(gates[0]) } else { None },
            reducer_gate_only: spec.reducer_gate_only,
            effect_gate: Some(gates[1]),
            gate_idx: 0,
        };
        cfg.name = spec.name.map(|s| s.to_string());
        let read_cell = Arc::new(StdMutex::new(None));
        for m in 0..spec.mws {
            let table: Vec<(usize, Verdict)> =
                spec.verdicts.iter().filter(|v| v.1 == m).map(|v| (v.0, v.2)).collect();
            let mw = ScriptMw {
                idx: m,
                verdicts: Arc::new(move |hook, _aid| {
                    table.iter().find(|t| t.0 == hook).map(|t| t.1).unwrap_or(Verdict::Continue)
                }),
                remove_effect: if spec.mw_removes_effect == Some(m) { Some(0) } else { None },
                dispatch_in_hook: if m == 0 { spec.mw_dispatch_on } else { None },
                read_from: if m == 0 && spec.mw_reads { Some(read_cell.clone()) } else { None },
            };
            cfg.mws.push(Arc::new(mw) as Arc<dyn Middleware<St, Act> + Send + Sync>);
        }
        let st = build_store(cfg);
        *read_cell.lock().unwrap() = Some(Arc::downgrade(&st));
        stores.push(st);
    }
    let droppable = if p.droppable { Some(DroppableStore::new(stores[0].clone())) } else { None };
    let ctx = Arc::new(Ctx {
        stores,
        subs: StdMutex::new(HashMap::new()),
        shared_subs: StdMutex::new(HashMap::new()),
        gates,
        droppable: StdMutex::new(droppable),
        share: {
            fn has(op: &Op) -> bool {
                match op {
                    Op::AddSharedSub { .. } => true,
                    Op::On(_, o) => has(o),
                    _ => false,
                }
            }
            p.main.iter().any(has) || p.threads.iter().any(|t| t.2.iter().any(has))
        },
    });
    let mut handles = vec![];
    let mut local = Local::default();
    for op in &p.main {
        match op {
            Op::SpawnAll => {
                for (name, si, ops) in &p.threads {
                    let c = ctx.clone();
                    let ops = ops.clone();
                    let si = *si;
                    handles.push((
                        name.clone(),
                        spawn_client(name, move || {
                            let mut local = Local::default();
                            for op in &ops {
                                exec(&c, si, op, &mut local);
                            }
                        }),
                    ));
                }
            }
            Op::JoinAll => {
                for (_, h) in handles.drain(..) {
                    let _ = h.join();
                }
            }
            Op::JoinThese(names) => {
                let (these, rest): (Vec<_>, Vec<_>) = handles.drain(..).partition(|(n, _)| names.contains(&n.as_str()));
                handles = rest;
                for (_, h) in these {
                    let _ = h.join();
                }
            }
            other => exec(&ctx, 0, other, &mut local),
        }
    }
    for (_, h) in handles.drain(..) {
        let _ = h.join();
    }
    drop(local);
    // release everything inside the execution: subscriptions first, then the store handles
    let subs: Vec<_> = ctx.subs.lock().unwrap().drain().collect();
    drop(subs);
    let ss: Vec<_> = ctx.shared_subs.lock().unwrap().drain().collect();
    drop(ss);
    drop(ctx);
}
