//! `vcheck selftest` — machinery checks that are not verdicts about rs-store:
//!  1. determinism: the same scenarios explored with 1 worker and with 16 workers (work sharing
//!     splits the schedule tree differently) must give identical execution counts, tree sizes
//!     and outcome sets;
//!  2. replay: the first schedules of each scenario re-executed twice from their recorded choice
//!     lists must give bit-identical event logs.

use crate::props;
use crate::Tier;
use std::time::Duration;
use verif_rt::explore::{self, Cfg, Dfs, Fixed};

pub fn run() -> i32 {
    let picks = [("C01", "P2k1r2"), ("C04", "P2k1cap1block"), ("C10", "cap1oldestP1k2end1"), ("C13", "sub+unsub|chanblock+unsub"), ("C12", "m1")];
    let mut bad = 0;
    for (prop, filt) in picks {
        let scns: Vec<_> = props::scenarios(prop, Tier::Quick).into_iter().filter(|s| s.name.contains(filt)).take(2).collect();
        if scns.is_empty() {
            eprintln!("selftest: no scenario matches {} {}", prop, filt);
            bad += 1;
            continue;
        }
        let mut sig = vec![];
        for workers in [1usize, 16] {
            let cfg = Cfg {
                workers,
                deadline: Duration::from_secs(300),
                max_execs_per_scenario: 50_000_000,
                rss_cap_kb: 0,
                stop_on_unknown: false,
                iterate_bounds: false,
            };
            let rep = explore::explore(scns.clone(), &cfg, &|_| true);
            if let Some(f) = rep.fatal {
                eprintln!("selftest: machinery error: {}", f);
                return 2;
            }
            let s: Vec<(String, u64, u64, u64, u64)> = rep.stats.iter().map(|s| (s.name.clone(), s.executions, s.nodes, s.outcomes, s.steps)).collect();
            sig.push(s);
        }
        if sig[0] != sig[1] {
            eprintln!("selftest: NONDETERMINISM in {}: 1 worker {:?} vs 16 workers {:?}", prop, sig[0], sig[1]);
            bad += 1;
        } else {
            println!("selftest: {} {:?} identical with 1 and 16 workers", prop, sig[0]);
        }
        // replay the first 200 schedules twice
        for scn in &scns {
            let mut dfs = Dfs::new(scn.bound, &[]);
            let mut n = 0;
            loop {
                dfs.begin();
                let r0 = explore::run_once(scn, &mut dfs);
                let choices = dfs.choices();
                let r1 = explore::run_once(scn, &mut Fixed::new(choices.clone()));
                let r2 = explore::run_once(scn, &mut Fixed::new(choices.clone()));
                let (h0, h1, h2) = (explore::full_hash(&r0), explore::full_hash(&r1), explore::full_hash(&r2));
                if h0 != h1 || h1 != h2 {
                    eprintln!("selftest: replay of {} choices {:?} differs from the explored execution", scn.name, choices);
                    bad += 1;
                    break;
                }
                n += 1;
                if n >= 200 || !dfs.advance() {
                    break;
                }
            }
            println!("selftest: {} — {} schedules replayed twice, identical logs", scn.name, n);
        }
    }
    if bad == 0 {
        println!("selftest: ok");
        0
    } else {
        2
    }
}
